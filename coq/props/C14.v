(* C14 - Each language's captions stay under their language, in document order.
   Only statements closed by `exact`, with Print Assumptions, and non-vacuity examples. *)
From Coq Require Import List ZArith Bool.
From PV Require Import lib.Sx lib.Str lib.Result model.Langs spec.SpecLangs proofs.LangsFacts proofs.SamiSyncFacts.
From PV Require Import spec.SpecFindLang model.LangsMerge proofs.FindLangFacts proofs.LangsMergeFacts.
Import ListNotations.
Open Scope Z_scope.

(* ---- DFXP read ------------------------------------------------------------------------------------------- *)
(* order of first appearance, pinned down: the model's fold is the specification's `uniq` (keep first occurrences) *)
Theorem C14_first_appearance_uniq : forall ls, first_appearance ls = uniq ls.
Proof. exact first_appearance_uniq. Qed.
Print Assumptions C14_first_appearance_uniq.
(* EVERY document (repeated languages, nested divs, divs without paragraphs): the reader model is the grouping by
   effective language - languages in order of first appearance, a language met again continues its list, no cue is
   lost and none is listed twice - and therefore meets the oracle *)
Theorem C14_dfxp_read_groups : forall default doc,
  dfxp_read default doc
  = spec_group (map (fun dv => (effective_lang (fst dv) (d_tt doc) default, snd dv)) (d_divs doc)).
Proof. exact dfxp_read_groups. Qed.
Print Assumptions C14_dfxp_read_groups.
Theorem C14_dfxp_read_meets_oracle : forall default tt divs,
  ok_dfxp_read default tt divs (dfxp_read default (mkDfxp tt divs)) = true.
Proof. exact dfxp_read_meets_oracle. Qed.
Print Assumptions C14_dfxp_read_meets_oracle.

(* the <body> as a TREE of divs and paragraphs (nested divs, a div without xml:lang inherits the nearest enclosing
   div's, every <p> under its nearest div): the tree read is the same grouping over the tree's segments *)
Theorem C14_dfxp_tree_read_groups : forall default tt nodes,
  dfxp_read_tree default tt nodes
  = spec_group (map (fun dv => (effective_lang (fst dv) tt default, snd dv)) (flatten_body nodes)).
Proof. exact dfxp_read_tree_groups. Qed.
Print Assumptions C14_dfxp_tree_read_groups.
Theorem C14_dfxp_tree_read_meets_oracle : forall default tt nodes,
  ok_dfxp_read default tt (flatten_body nodes) (dfxp_read_tree default tt nodes) = true.
Proof. exact dfxp_read_tree_meets_oracle. Qed.
Print Assumptions C14_dfxp_tree_read_meets_oracle.

(* ---- DFXP write: order, force=, and back again --------------------------------------------------------------- *)
(* the writer models meet the oracle: divs are a sub-sequence of the set with identical cue lists; a present force
   selects exactly that language; an empty force writes every language (legacy: an absent one the last language) *)
Theorem C14_dfxp_write_meets_oracle : forall force cs, NoDup (languages cs) ->
  ok_dfxp_write force cs (doc_sset (dfxp_write force cs)) = true.
Proof. exact dfxp_write_meets_oracle. Qed.
Print Assumptions C14_dfxp_write_meets_oracle.
Theorem C14_legacy_write_meets_oracle : forall force cs d, NoDup (languages cs) -> mem [] (languages cs) = false ->
  legacy_write force cs = Ok d -> ok_dfxp_write force cs (doc_sset d) = true.
Proof. exact legacy_write_meets_oracle. Qed.
Print Assumptions C14_legacy_write_meets_oracle.
Theorem C14_dfxp_roundtrip_langs : forall default cs, NoDup (languages cs) -> mem [] (languages cs) = false ->
  dfxp_read default (dfxp_write [] cs) = cs.
Proof. exact dfxp_roundtrip_langs. Qed.
Print Assumptions C14_dfxp_roundtrip_langs.
Theorem C14_dfxp_roundtrip_force : forall default force cs, mem force (languages cs) = true ->
  dfxp_read default (dfxp_write force cs) = [(force, get_captions cs force)].
Proof. exact dfxp_roundtrip_force. Qed.
Print Assumptions C14_dfxp_roundtrip_force.

(* ---- SAMI read --------------------------------------------------------------------------------------------- *)
(* EVERY document: the reader model is the grouping of the paragraphs by their language; a blank paragraph counts
   for the order of first appearance of its language but gives no cue - and therefore meets the oracle *)
Theorem C14_sami_read_groups_model_tags_partial : forall default styles ps,
  sami_read default styles ps
  = spec_group (map (fun t : str * scue * bool => (fst (fst t), if snd t then @nil scue else [snd (fst t)]))
                    (sami_tagged default styles ps)).
Proof. exact sami_read_groups. Qed.
Print Assumptions C14_sami_read_groups_model_tags_partial.
Theorem C14_sami_read_meets_oracle_model_tags_partial : forall default styles ps,
  ok_sami_read (sami_tagged default styles ps) (sami_read default styles ps) = true.
Proof. exact sami_read_meets_oracle. Qed.
Print Assumptions C14_sami_read_meets_oracle_model_tags_partial.
(* partition: over all languages listed, every non-blank paragraph is counted exactly once *)
Theorem C14_sami_read_partition : forall default styles ps,
  fold_right (fun lc n => (length (snd lc) + n)%nat) 0%nat (sami_read default styles ps)
  = length (filter (fun p => negb (is_blank_text (sp_text p))) ps).
Proof. exact sami_read_partition. Qed.
Print Assumptions C14_sami_read_partition.
(* how a <P> gets its language in the MODEL (one unfolding step each; they document find_lang, the oracle's tags are
   the generator's): a class without a language does not end the lookup *)
Theorem C14_find_lang_class_falls_through_unfold : forall name value rest styles,
  str_eqb (lower name) (lit "lang") = false -> str_eqb (lower name) (lit "class") = true ->
  (dict_get (lower value) styles = None \/ dict_get (lower value) styles = Some None) ->
  find_lang ((name, value) :: rest) styles = find_lang rest styles.
Proof. exact find_lang_class_falls_through. Qed.
Print Assumptions C14_find_lang_class_falls_through_unfold.

(* ---- SAMI write ----------------------------------------------------------------------------------------------- *)
(* every paragraph goes to the end of a block with its own start or into a new block with its start;
   all other blocks and paragraphs stay where they were *)
Theorem C14_sami_p_in_own_sync : forall primary t p b, placed t p b (place primary t p b).
Proof. exact place_placed. Qed.
Print Assumptions C14_sami_p_in_own_sync.
(* a later language's paragraph never breaks the order of the body, whatever its time *)
Theorem C14_place_secondary_sorted : forall t p b, sorted b -> sorted (place false t p b).
Proof. exact place_secondary_sorted. Qed.
Print Assumptions C14_place_secondary_sorted.
(* the body is sorted by start as soon as the FIRST language's cues are sorted (ms resolution) *)
Theorem C14_sami_syncs_sorted : forall cs,
  match cs with (_, caps) :: _ => caps_sorted 0 caps | [] => True end -> sorted (sami_write cs).
Proof. exact sami_syncs_sorted. Qed.
Print Assumptions C14_sami_syncs_sorted.
Theorem C14_sorted_is_oracle_order : forall b, sorted b -> nondecr (map fst b) = true.
Proof. exact sorted_nondecr. Qed.
Print Assumptions C14_sorted_is_oracle_order.
(* each language's paragraphs in the body are exactly the writer's sequence for its cue list, in order: every
   language sorted at ms resolution (zero-duration and coinciding cues allowed), distinct language names *)
Theorem C14_sami_language_order : forall cs, NoDup (map fst cs) ->
  (forall l caps, In (l, caps) cs -> caps_sorted 0 caps) ->
  forall l caps, In (l, caps) cs -> cpars l (sami_write cs) = lang_pars caps None.
Proof. exact sami_language_order. Qed.
Print Assumptions C14_sami_language_order.
(* in the terms of the oracle ok_sami_body: the non-blank paragraphs of a language, each with the start of its
   block, are its cues at start // 1000 - no cue lost, moved to another time or language, or reordered *)
Theorem C14_sami_language_cues : forall cs, NoDup (map fst cs) ->
  (forall l caps, In (l, caps) cs -> caps_sorted 0 caps) ->
  (forall l caps c, In (l, caps) cs -> In c caps -> str_eqb (wc_text c) (lit "&nbsp;") = false) ->
  forall l caps, In (l, caps) cs ->
    pars_of l (sami_write cs) = map (fun c => (wc_start c / 1000, wc_text c)) caps.
Proof. exact sami_language_cues. Qed.
Print Assumptions C14_sami_language_cues.

(* ALL inputs, no sortedness assumed: languages never mix. As multisets, each paragraph with the start of the block
   it sits in, the paragraphs of a language in the body are exactly the writer's sequence for its cue list (blank
   syncs included); a class that is not a language of the set has no paragraph *)
Theorem C14_sami_languages_never_mix : forall cs, NoDup (map fst cs) ->
  (forall l caps, In (l, caps) cs -> Permutation.Permutation (cpars l (sami_write cs)) (lang_pars caps None))
  /\ (forall cls, ~ In cls (map fst cs) -> cpars cls (sami_write cs) = []).
Proof. exact sami_languages_never_mix. Qed.
Print Assumptions C14_sami_languages_never_mix.

(* the writer model meets the WHOLE oracle ok_sami_body: body sorted, every language's non-blank paragraphs = its
   cues at start // 1000 in order, no paragraph of a foreign class *)
Theorem C14_sami_write_meets_oracle : forall cs, dom_sami_write cs -> ok_sami_body (as_sset cs) (sami_write cs) = true.
Proof. exact sami_write_meets_oracle. Qed.
Print Assumptions C14_sami_write_meets_oracle.

(* ---- SAMI write: the class layer ---------------------------------------------------------------------------- *)
(* whatever class a caption carries, the class the (repaired) writer puts on its paragraph resolves - through the
   stylesheet the writer emits, later blocks winning - to the language the cue is listed under.  Hypothesis: a style
   NAMED like a language of the set does not declare a different language (two blocks of one name would disagree) *)
Theorem C14_class_resolves : forall styles langs l cap_class,
  NoDup (map fst styles) -> NoDup langs -> In l langs ->
  (forall l0 l', In l0 langs -> dict_get l0 styles = Some (Some l') -> l' = l0) ->
  resolve_class (p_class l cap_class styles) (sheet_langs styles langs) = Some l.
Proof. exact class_resolves. Qed.
Print Assumptions C14_class_resolves.

(* ---- language pick ------------------------------------------------------------------------------------------- *)
Theorem C14_vtt_select_meets_oracle : forall lang cs obs, NoDup (languages cs) -> vtt_select lang cs = Ok obs ->
  ok_pick lang cs obs = true.
Proof. exact vtt_select_meets_oracle. Qed.
Print Assumptions C14_vtt_select_meets_oracle.

(* ---- wave 7: how a <P> gets its language (SAMIParser._find_lang, handle_starttag) -------------------------------- *)
(* EVERY attribute list and stylesheet: the model finds what the specification says - the FIRST attribute that names
   a language decides (a `lang` attribute: the two-letter cut of its value; a `class`: the language its class
   declares), attributes before it name none - and nothing else satisfies the specification *)
Theorem C14_find_lang_first_decider : forall attrs styles, spec_find_lang styles attrs (find_lang attrs styles).
Proof. exact find_lang_first_decider. Qed.
Print Assumptions C14_find_lang_first_decider.
Theorem C14_find_lang_unique : forall attrs styles r, spec_find_lang styles attrs r -> r = find_lang attrs styles.
Proof. exact find_lang_unique. Qed.
Print Assumptions C14_find_lang_unique.
(* the decidable oracle the harness evaluates on the real _find_lang says exactly the relational specification, and the
   model meets it *)
Theorem C14_ok_find_lang_iff_spec_unfold : forall attrs styles r,
  ok_find_lang styles attrs r = true <-> spec_find_lang styles attrs r.
Proof. exact ok_find_lang_iff_spec. Qed.
Print Assumptions C14_ok_find_lang_iff_spec_unfold.
Theorem C14_find_lang_meets_oracle : forall attrs styles, ok_find_lang styles attrs (find_lang attrs styles) = true.
Proof. exact find_lang_meets_oracle. Qed.
Print Assumptions C14_find_lang_meets_oracle.
(* attributes that name no language (id=, style=, a class without a language, an unknown class) do not matter,
   wherever they stand *)
Theorem C14_find_lang_ignores_silent : forall attrs styles,
  find_lang (filter (fun a => match attr_names styles a with Some _ => true | None => false end) attrs) styles
  = find_lang attrs styles.
Proof. exact find_lang_ignores_silent. Qed.
Print Assumptions C14_find_lang_ignores_silent.
(* nor does the case of attribute names and of class values *)
Theorem C14_find_lang_case_insensitive : forall attrs styles,
  find_lang (map (fun a => (lower (fst a), if str_eqb (lower (fst a)) (lit "class") then lower (snd a) else snd a)) attrs) styles
  = find_lang attrs styles.
Proof. exact find_lang_case_insensitive. Qed.
Print Assumptions C14_find_lang_case_insensitive.
(* the SAMI reader model is the grouping of the paragraphs by the language the SPECIFICATION assigns from their
   attributes and the stylesheet (no longer tags computed by the model), and meets the oracle with those tags *)
Theorem C14_sami_read_groups_by_spec_lang : forall default styles ps,
  sami_read default styles ps
  = spec_group (map (fun t : str * scue * bool => (fst (fst t), if snd t then @nil scue else [snd (fst t)]))
                    (spec_tagged default styles ps))
  /\ ok_sami_read (spec_tagged default styles ps) (sami_read default styles ps) = true.
Proof. exact sami_read_groups_by_spec_lang. Qed.
Print Assumptions C14_sami_read_groups_by_spec_lang.
(* handle_starttag over a run of <P> tags: the tags and self.langs (order of first appearance) meet the oracle *)
Theorem C14_p_langs_meets_oracle : forall default styles ps,
  ok_p_langs default styles ps (fst (p_langs default styles ps)) (snd (p_langs default styles ps)) = true.
Proof. exact p_langs_meets_oracle. Qed.
Print Assumptions C14_p_langs_meets_oracle.
(* the dict the parser rebuilds from a written stylesheet: a later block of a class replaces an earlier one *)
Theorem C14_read_styles_last_block_wins : forall (sheet : list (str * str)) c,
  (forall b, In b sheet -> lower (fst b) = lower c -> fst b = c) ->
  dict_get (lower c) (read_styles sheet) = option_map Some (resolve_class c sheet).
Proof. exact read_styles_last_block_wins. Qed.
Print Assumptions C14_read_styles_last_block_wins.
(* write-then-read at the class layer (composes C14_class_resolves with the reader's lookup): whatever class a caption
   carries, the paragraph written for it under language l is read back under l *)
Theorem C14_written_class_read_back : forall default styles langs l cap_class,
  NoDup (map fst styles) -> NoDup langs -> In l langs -> l <> [] ->
  (forall l0 l', In l0 langs -> dict_get l0 styles = Some (Some l') -> l' = l0) ->
  (forall a b, In a (map fst styles ++ langs) -> In b (map fst styles ++ langs) -> lower a = lower b -> a = b) ->
  reread_lang default (p_class l cap_class styles) (sheet_langs styles langs) = l.
Proof. exact written_class_read_back. Qed.
Print Assumptions C14_written_class_read_back.

(* ---- wave 7: merge_concurrent_captions (single-positioning and legacy DFXP writers) ---------------------------- *)
(* the loop with last_caption / concurrent_captions / merged_captions and merge() compute the specification's
   grouping of equal-(start, end) runs; hypothesis: every caption has a node (the Caption constructor's rule) *)
Theorem C14_merge_loop_is_grouping : forall cs, nodes_nonempty cs -> merge_concurrent cs = spec_merge_set cs.
Proof. exact merge_concurrent_is_spec. Qed.
Print Assumptions C14_merge_loop_is_grouping.
Theorem C14_merge_meets_oracle : forall cs, nodes_nonempty cs -> ok_merge cs (merge_concurrent cs) = true.
Proof. exact merge_concurrent_meets_oracle. Qed.
Print Assumptions C14_merge_meets_oracle.
(* merging never moves a cue to another language: same languages in the same order, each with exactly its texts in order *)
Theorem C14_merge_keeps_languages : forall cs, nodes_nonempty cs ->
  map (fun lc => (fst lc, texts_of (snd lc))) (merge_concurrent cs) = map (fun lc => (fst lc, texts_of (snd lc))) cs.
Proof. exact merge_concurrent_keeps_languages. Qed.
Print Assumptions C14_merge_keeps_languages.
Theorem C14_merge_idempotent : forall cs, nodes_nonempty cs -> merge_concurrent (merge_concurrent cs) = merge_concurrent cs.
Proof. exact merge_concurrent_idempotent. Qed.
Print Assumptions C14_merge_idempotent.
(* the writers that merge first (SinglePositioningDFXPWriter, LegacyDFXPWriter = merge_concurrent_captions, then the
   writer above): what they write is judged against the GROUPED set, and reading it back returns the grouped set *)
(* audit w7: the next three are `rewrite C14_merge_loop_is_grouping` + the wave-3 writer theorems; that the writers call
   the merge first is in the model BY DEFINITION (model/LangsMerge.v single_write / legacy_merge_write), tied by stream B *)
Theorem C14_single_write_meets_oracle_unfold : forall force cs, nodes_nonempty cs -> NoDup (map fst cs) ->
  ok_dfxp_write force (flat_set (spec_merge_set cs)) (doc_sset (single_write force cs)) = true.
Proof. exact single_write_meets_oracle. Qed.
Print Assumptions C14_single_write_meets_oracle_unfold.
Theorem C14_legacy_merge_write_meets_oracle_unfold : forall force cs d, nodes_nonempty cs -> NoDup (map fst cs) ->
  mem [] (map fst cs) = false -> legacy_merge_write force cs = Ok d ->
  ok_dfxp_write force (flat_set (spec_merge_set cs)) (doc_sset d) = true.
Proof. exact legacy_merge_write_meets_oracle. Qed.
Print Assumptions C14_legacy_merge_write_meets_oracle_unfold.
Theorem C14_single_write_roundtrip_unfold : forall default cs, nodes_nonempty cs -> NoDup (map fst cs) -> mem [] (map fst cs) = false ->
  dfxp_read default (single_write [] cs) = flat_set (spec_merge_set cs).
Proof. exact single_write_roundtrip. Qed.
Print Assumptions C14_single_write_roundtrip_unfold.
(* about the grouping itself, ALL cue lists: neighbours in the output have different spans; the spans are those of
   the input with neighbouring repetitions dropped; the texts are conserved in order; a list without equal
   neighbours is left alone *)
(* audit w7: the four `C14_grouping_*_unfold` statements are about the SPECIFICATION's grouping only (they validate
   spec_merge; they say nothing about model or code) *)
Theorem C14_grouping_spans_differ_unfold : forall caps, spans_differ (spec_merge caps) = true.
Proof. exact spec_merge_spans_differ. Qed.
Print Assumptions C14_grouping_spans_differ_unfold.
Theorem C14_grouping_spans_unfold : forall caps : list (Z * Z * list (option str)), map fst (spec_merge caps) = squeeze (map fst caps).
Proof. exact spec_merge_spans. Qed.
Print Assumptions C14_grouping_spans_unfold.
Theorem C14_grouping_texts_unfold : forall caps, texts_of (spec_merge caps) = texts_of caps.
Proof. exact spec_merge_texts. Qed.
Print Assumptions C14_grouping_texts_unfold.
Theorem C14_grouping_no_runs_id_unfold : forall caps, spans_differ caps = true -> spec_merge caps = caps.
Proof. exact spec_merge_no_runs_id. Qed.
Print Assumptions C14_grouping_no_runs_id_unfold.

(* ---- non-vacuity ------------------------------------------------------------------------------------------------ *)
Example C14_example_dfxp :
  dfxp_read (lit "und") (mkDfxp (Some (lit "es"))
     [(Some (lit "fr"), [(1000000, lit "f1")]); (None, [(1000000, lit "d1")]); (Some (lit "de"), [])])
  = [(lit "fr", [(1000000, lit "f1")]); (lit "es", [(1000000, lit "d1")]); (lit "de", [])].
Proof. vm_compute. reflexivity. Qed.
Example C14_example_class_without_lang :
  sami_read (lit "und") [(lit "narrow", None); (lit "encc", Some (lit "en"))]
    [mkP [(lit "class", lit "NARROW"); (lit "lang", lit "fr")] 1000 (lit "a");
     mkP [(lit "class", lit "ENCC"); (lit "lang", lit "fr")] 1000 (lit "b");
     mkP [(lit "class", lit "NARROW")] 2000 (lit "c")]
  = [(lit "fr", [(1000000, lit "a")]); (lit "en", [(1000000, lit "b")]); (lit "und", [(2000000, lit "c")])].
Proof. vm_compute. reflexivity. Qed.
(* a cue ending in millisecond 0 still gets its blank sync (last_time = 0 is not `None`) *)
Example C14_example_blank_at_zero :
  sami_write [(lit "en", [mkWcue 0 900 (lit "a"); mkWcue 5000000 6000000 (lit "b")])]
  = [(0, [(lit "en", lit "a")]); (0, [(lit "en", lit "&nbsp;")]); (5000, [(lit "en", lit "b")])].
Proof. vm_compute. reflexivity. Qed.
Example C14_example_sami_write :
  let cs := [(lit "en", [mkWcue 1000000 2000000 (lit "a1"); mkWcue 5000000 6000000 (lit "a2")]);
             (lit "fr", [mkWcue 500000 1500000 (lit "f1"); mkWcue 5000000 5500000 (lit "f2")])] in
  caps_sorted 0 (snd (hd (lit "", []) cs)) /\
  sami_write cs = [(500, [(lit "fr", lit "f1")]); (1000, [(lit "en", lit "a1")]); (1500, [(lit "fr", lit "&nbsp;")]);
                   (2000, [(lit "en", lit "&nbsp;")]); (5000, [(lit "en", lit "a2"); (lit "fr", lit "f2")])] /\
  cpars (lit "fr") (sami_write cs) = [(500, lit "f1"); (1500, lit "&nbsp;"); (5000, lit "f2")].
Proof. vm_compute. repeat split; intros; discriminate. Qed.

(* the hypotheses of the theorems above are met by ordinary inputs *)
Definition ex_cs : list (str * list wcue) :=
  [(lit "en", [mkWcue 1000000 2000000 (lit "a1"); mkWcue 5000000 6000000 (lit "a2")]);
   (lit "fr", [mkWcue 500000 1500000 (lit "f1"); mkWcue 5000000 5500000 (lit "f2")])].
Example C14_example_dom_sami_write : dom_sami_write ex_cs /\ ok_sami_body (as_sset ex_cs) (sami_write ex_cs) = true.
Proof.
  split; [|vm_compute; reflexivity]. split; [|split].
  - repeat constructor; cbn; intros H; repeat (destruct H as [H|H]; [discriminate|]); exact H.
  - intros l caps [H|[H|[]]]; inversion H; subst; vm_compute; repeat split; intros; discriminate.
  - intros l caps c [H|[H|[]]]; inversion H; subst; intros [<-|[<-|[]]]; vm_compute; reflexivity.
Qed.
Definition ex_set : sset := [(lit "en", [(1000000, lit "a")]); (lit "fr", [(2000000, lit "b")]); (lit "de", [])].
Example C14_example_write_hyps :
  NoDup (languages ex_set) /\ mem [] (languages ex_set) = false
  /\ ok_dfxp_write (lit "fr") ex_set (doc_sset (dfxp_write (lit "fr") ex_set)) = true
  /\ (exists d, legacy_write (lit "xx") ex_set = Ok d /\ doc_sset d = [(lit "de", [])])
  /\ vtt_select (Some (lit "fr")) ex_set = Ok [(2000000, lit "b")].
Proof.
  split; [|split; [reflexivity|split; [vm_compute; reflexivity|split; [eexists; split; vm_compute; reflexivity|vm_compute; reflexivity]]]].
  repeat constructor; cbn; intros H; repeat (destruct H as [H|H]; [discriminate|]); exact H.
Qed.
(* the two audit shapes: a class declaring fr next to the language class, and a caption carrying the class of ANOTHER
   language.  The old writer kept `encc` on the second (it resolves to en); the repaired choice resolves to fr *)
Definition ex_styles : list (str * option str) :=
  [(lit "frcc", Some (lit "fr")); (lit "encc", Some (lit "en")); (lit "narrow", None)].
Example C14_example_class_layer :
  p_class (lit "fr") (Some (lit "encc")) ex_styles = lit "fr"
  /\ p_class (lit "fr") (Some (lit "frcc")) ex_styles = lit "frcc"
  /\ sheet_langs ex_styles [lit "en"; lit "fr"]
     = [(lit "frcc", lit "fr"); (lit "encc", lit "en"); (lit "en", lit "en"); (lit "fr", lit "fr")]
  /\ resolve_class (lit "encc") (sheet_langs ex_styles [lit "en"; lit "fr"]) = Some (lit "en")
  /\ (forall l0 l', In l0 [lit "en"; lit "fr"] -> dict_get l0 ex_styles = Some (Some l') -> l' = l0).
Proof.
  repeat (split; [vm_compute; reflexivity|]).
  intros l0 l' [<-|[<-|[]]] H; vm_compute in H; discriminate.
Qed.
(* nested divs: fr { a, (no lang){ b }, c }, en { d }, fr { e }: the inner div inherits fr, document order is kept *)
Example C14_example_tree :
  dfxp_read_tree (lit "und") (Some (lit "es"))
    [DDiv (Some (lit "fr")) [DP (1, lit "a"); DDiv None [DP (2, lit "b")]; DP (3, lit "c")];
     DDiv None [DP (4, lit "d")]; DDiv (Some (lit "fr")) [DP (5, lit "e")]; DP (6, lit "outside")]
  = [(lit "fr", [(1, lit "a"); (2, lit "b"); (3, lit "c"); (5, lit "e")]); (lit "es", [(4, lit "d")])].
Proof. vm_compute. reflexivity. Qed.

(* wave 7 *)
Definition ex_fl_styles : sami_styles := [(lit "encc", Some (lit "en")); (lit "narrow", None)].
Example C14_example_find_lang :
  find_lang [(lit "id", lit "x"); (lit "Class", lit "NARROW"); (lit "class", lit "Unknown"); (lit "CLASS", lit "EnCC");
             (lit "lang", lit "fr")] ex_fl_styles = Some (lit "en")
  /\ find_lang [(lit "class", lit "narrow"); (lit "LANG", lit "en-US"); (lit "class", lit "encc")] ex_fl_styles = Some (lit "en")
  /\ find_lang [(lit "class", lit "narrow"); (lit "id", lit "encc")] ex_fl_styles = None
  /\ p_lang (lit "und") [(lit "lang", [])] ex_fl_styles = lit "und".
Proof. vm_compute. repeat split. Qed.
(* the hypotheses of C14_written_class_read_back are met by an ordinary set (en-US next to the class encc / ENCC clash
   is what the lower-case hypothesis excludes) *)
Example C14_example_read_back_hyps :
  let styles := ex_styles in let langs := [lit "en-US"; lit "fr"] in
  NoDup (map fst styles) /\ NoDup langs
  /\ (forall l0 l', In l0 langs -> dict_get l0 styles = Some (Some l') -> l' = l0)
  /\ (forall a b, In a (map fst styles ++ langs) -> In b (map fst styles ++ langs) -> lower a = lower b -> a = b)
  /\ reread_lang (lit "und") (p_class (lit "fr") (Some (lit "encc")) styles) (sheet_langs styles langs) = lit "fr"
  /\ reread_lang (lit "und") (p_class (lit "en-US") None styles) (sheet_langs styles langs) = lit "en-US".
Proof.
  cbv zeta. split; [|split; [|split; [|split; [|split; vm_compute; reflexivity]]]].
  - repeat constructor; cbn; intros H; repeat (destruct H as [H|H]; [discriminate|]); exact H.
  - repeat constructor; cbn; intros H; repeat (destruct H as [H|H]; [discriminate|]); exact H.
  - intros l0 l' [<-|[<-|[]]] H; vm_compute in H; discriminate.
  - intros a b Ha Hb. cbn in Ha, Hb.
    repeat (destruct Ha as [<-|Ha]); try destruct Ha; repeat (destruct Hb as [<-|Hb]); try destruct Hb;
      vm_compute; intros E; try reflexivity; discriminate.
Qed.
Definition ex_mset : list (str * list (Z * Z * list (option str))) :=
  [(lit "en", [(1, 2, [Some (lit "a")]); (1, 2, [Some (lit "b"); None; Some (lit "c")]); (1, 3, [Some (lit "d")]);
               (1, 2, [Some (lit "e")])]); (lit "fr", [])].
Example C14_example_merge :
  nodes_nonempty ex_mset
  /\ merge_concurrent ex_mset
     = [(lit "en", [(1, 2, [Some (lit "a"); None; Some (lit "b"); None; Some (lit "c")]); (1, 3, [Some (lit "d")]);
                    (1, 2, [Some (lit "e")])]); (lit "fr", [])].
Proof.
  split; [|vm_compute; reflexivity].
  intros l caps x [H|[H|[]]]; inversion H; subst; [|intros []].
  intros Hx. repeat (destruct Hx as [<-|Hx]; [discriminate|]). destruct Hx.
Qed.
Example C14_example_single_write :
  NoDup (map fst ex_mset) /\ mem [] (map fst ex_mset) = false
  /\ dfxp_read (lit "und") (single_write [] ex_mset)
     = [(lit "en", [(1, lit "a b c"); (1, lit "d"); (1, lit "e")]); (lit "fr", [])]
  /\ (exists d, legacy_merge_write (lit "xx") ex_mset = Ok d /\ doc_sset d = [(lit "fr", [])]).
Proof.
  split; [|split; [reflexivity|split; [vm_compute; reflexivity|eexists; split; vm_compute; reflexivity]]].
  repeat constructor; cbn; intros H; repeat (destruct H as [H|H]; [discriminate|]); exact H.
Qed.
(* the hypothesis of C14_read_styles_last_block_wins (no OTHER block name coincides with c in lower case) and a repeated
   class: the later block wins, the key keeps its first position; a list without equal neighbours (C14_grouping_no_runs_id_unfold) *)
Example C14_example_read_styles :
  let sheet := [(lit "ENCC", lit "en"); (lit "fr", lit "fr"); (lit "ENCC", lit "en-US")] in
  (forall b, In b sheet -> lower (fst b) = lower (lit "ENCC") -> fst b = lit "ENCC")
  /\ read_styles sheet = [(lit "encc", Some (lit "en-US")); (lit "fr", Some (lit "fr"))]
  /\ resolve_class (lit "ENCC") sheet = Some (lit "en-US")
  /\ spans_differ [(1, 2, [Some (lit "a")]); (1, 3, [Some (lit "b")]); (1, 2, [Some (lit "c")])] = true.
Proof.
  cbv zeta. split; [|vm_compute; repeat split].
  intros b [<-|[<-|[<-|[]]]]; vm_compute; intros E; try reflexivity; discriminate.
Qed.
