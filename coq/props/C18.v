(* C18 - Geometry values compare, hash, parse and print consistently.
   Only statements closed by `exact`, each followed by Print Assumptions; Examples show non-vacuity. *)
From Coq Require Import List ZArith QArith Qabs Bool.
From PV Require Import model.Store model.GeomStore proofs.StoreFacts proofs.GeomStoreFacts proofs.GeomStoreValue.
From PV Require Import lib.Sx lib.Str lib.Result model.Geometry model.GenGeom spec.SpecGeom.
From PV Require Import proofs.GeomStr proofs.GeomEq proofs.GeomParse proofs.GeomPrint proofs.GeomLang proofs.GeomFacts.
Import ListNotations.
Open Scope Z_scope.

(* ---- equality: exactly component-wise (value as a number, unit; origin, extent, padding, alignment) ------- *)
Theorem C18_eq_componentwise : forall a b, gval_eqb a b = true <-> gval_equiv a b.
Proof. exact gval_eqb_iff. Qed.
Print Assumptions C18_eq_componentwise.

Theorem C18_layout_eq_componentwise : forall a b, layout_eqb a b = true <-> layout_equiv a b.
Proof. exact layout_eqb_iff. Qed.
Print Assumptions C18_layout_eq_componentwise.

(* definitional link (spec_gval_eq is the same recursion written again): the check's oracle function is the model's *)
Theorem C18_eq_model_is_spec : forall a b, gval_eqb a b = spec_gval_eq a b.
Proof. exact gval_eqb_spec. Qed.
Print Assumptions C18_eq_model_is_spec.

(* an independent characterisation: two layouts are == exactly when their NORMAL FORMS are identical (every number in
   lowest terms, webvtt_positioning dropped) *)
Theorem C18_eq_iff_same_normal_form : forall a b, layout_eqb a b = true <-> norm_layout a = norm_layout b.
Proof. exact layout_eqb_norm. Qed.
Print Assumptions C18_eq_iff_same_normal_form.

(* reflexive (on geometry values), symmetric, transitive *)
Theorem C18_eq_equivalence :
  (forall a, a <> GOther -> gval_eqb a a = true)
  /\ (forall a b, gval_eqb a b = gval_eqb b a)
  /\ (forall a b c, gval_eqb a b = true -> gval_eqb b c = true -> gval_eqb a c = true).
Proof. exact gval_eqb_laws. Qed.
Print Assumptions C18_eq_equivalence.

(* equal values have equal hashes - for EVERY hash function on floats, units, alignment members, None and ints
   (CPython's are abstract: the section variables of proofs/GeomEq.v, discharged here) *)
Theorem C18_eq_implies_hash_eq :
  forall (hq : Q -> Z) (hu : unit_ -> Z) (hh : option halign -> Z) (hv : option valign -> Z) (hnone : Z) (hint : Z -> Z) a b,
  gval_eqb a b = true -> gval_hash hq hu hh hv hnone hint a = gval_hash hq hu hh hv hnone hint b.
Proof. exact gval_hash_eq. Qed.
Print Assumptions C18_eq_implies_hash_eq.

(* ---- Size.from_string: accepts exactly the size language, for ALL strings -------------------------------- *)
(* (after `fix: Size.from_string accepted a size followed by a newline` and `fix: ... non-ASCII decimal digits` there is
   no exception left: no trailing-newline case, ASCII digits only) accepted <-> in L; everything else is the syntax error *)
Theorem C18_parser_language : forall s,
  ((exists z, size_from_string s = Ok z) <-> size_lang s) /\ (~ size_lang s -> size_from_string s = Err ESyntax)
  /\ (forall e, size_from_string s = Err e -> e = ESyntax).
Proof. exact from_string_language. Qed.
Print Assumptions C18_parser_language.

(* and it returns the denoted value (positional decimal value of ip '.' fp) with the named unit *)
Theorem C18_parser_value : forall ip fp u, all_digits ip = true -> (fp = [] \/ all_digits fp = true) ->
  let s := ip ++ (match fp with [] => [] | _ => 46 :: fp end) ++ unit_str u in
  exists v, size_from_string s = Ok (mkSize v u) /\ (v == denoted ip fp)%Q /\ (0 <= v)%Q.
Proof. exact from_string_value. Qed.
Print Assumptions C18_parser_value.

(* the executable language test used by the check is the grammar, and the model passes the check's oracle *)
Theorem C18_language_decidable : forall s, in_size_lang s = true <-> size_lang s.
Proof. exact in_size_lang_iff. Qed.
Print Assumptions C18_language_decidable.

Theorem C18_parser_meets_oracle : forall s, ok_parse s (obs_of (size_from_string s)) = true.
Proof. exact ok_parse_model. Qed.
Print Assumptions C18_parser_meets_oracle.

(* ---- printing ------------------------------------------------------------------------------------------ *)
(* re-parsing a printed value gives the value rounded to two decimals (half-even hundredths), same unit *)
Theorem C18_print_parse : forall a, (0 <= s_val a)%Q ->
  exists z, size_from_string (size_str a) = Ok z
            /\ (s_val z == inject_Z (hundredths (s_val a)) / 100)%Q /\ s_unit z = s_unit a.
Proof. exact print_parse. Qed.
Print Assumptions C18_print_parse.

(* print o parse o print = print, and the re-parsed value is within 1/200 of the original *)
Theorem C18_print_stable : forall a, (0 <= s_val a)%Q ->
  exists z, size_from_string (size_str a) = Ok z /\ size_str z = size_str a
            /\ (Qabs (s_val z - s_val a) <= 1 # 200)%Q.
Proof. exact print_parse_print. Qed.
Print Assumptions C18_print_stable.

(* the printed string is canonical (no sign/exponent, <= 2 decimals, no trailing zero, no leading zeros), carries the
   unit, and denotes a number within 1/200 of the value: the check's print oracle holds of the model *)
Theorem C18_print_two_decimals : forall v u, (0 <= v)%Q -> ok_print v u (size_str (mkSize v u)) = true.
Proof. exact ok_print_model. Qed.
Print Assumptions C18_print_two_decimals.

(* what the statement fixes (<= 2 decimals, the unit, within 1/200; the check's print oracle) follows *)
Theorem C18_print_meets_statement_oracle : forall v u, (0 <= v)%Q -> ok_print_stmt v u (size_str (mkSize v u)) = true.
Proof. exact ok_print_stmt_model. Qed.
Print Assumptions C18_print_meets_statement_oracle.

(* printing depends on the value only, not on how the rational is represented *)
Theorem C18_print_function_of_value : forall a b, size_equiv a b -> size_str a = size_str b.
Proof. exact size_str_compat. Qed.
Print Assumptions C18_print_function_of_value.

(* ---- padding shorthand: TTML order before, end, after, start ------------------------------------------- *)
Theorem C18_padding_shorthand_ttml_order :
  (forall a, padding_of_sizes [a] = Ok (mkPadding a a a a))
  /\ (forall bv eh, padding_of_sizes [bv; eh] = Ok {| pd_before := bv; pd_after := bv; pd_start := eh; pd_end := eh |})
  /\ (forall b eh a, padding_of_sizes [b; eh; a] = Ok {| pd_before := b; pd_after := a; pd_start := eh; pd_end := eh |})
  /\ (forall b e a s, padding_of_sizes [b; e; a; s] = Ok {| pd_before := b; pd_end := e; pd_after := a; pd_start := s |})
  /\ (forall l, (length l = 0 \/ 5 <= length l)%nat -> padding_of_sizes l = Err ValueError).
Proof. exact padding_shorthand_order. Qed.
Print Assumptions C18_padding_shorthand_ttml_order.

Theorem C18_padding_model_is_spec : forall l,
  padding_of_sizes l = match ttml_padding l with Some p => Ok p | None => Err ValueError end.
Proof. exact padding_of_sizes_ttml. Qed.
Print Assumptions C18_padding_model_is_spec.

Theorem C18_padding_attribute : forall toks, toks <> [] -> Forall (free_of 32) toks ->
  padding_from_attr (join [32] toks) = (do sizes <- res_map size_from_string toks; padding_of_sizes sizes).
Proof. exact padding_from_attr_tokens. Qed.
Print Assumptions C18_padding_attribute.

(* ---- relativize / fit are functions on values: what they do not recompute is returned as it was.  Lemmas read off the
        model's definitions (the model is tied to the code by stream E of the check and by C13) ------------------- *)
(* identity up to webvtt_positioning, which as_percentage_of drops *)
Theorem C18_relativize_relative_is_identity : forall l w h, layout_relative l ->
  layout_as_pct l w h = Ok (mkLayout (l_origin l) (l_extent l) (l_padding l) (l_alignment l) None).
Proof. exact layout_as_pct_relative. Qed.
Print Assumptions C18_relativize_relative_is_identity.

Theorem C18_relativize_keeps_alignment_and_shape : forall l w h r, layout_as_pct l w h = Ok r ->
  l_alignment r = l_alignment l /\ l_webvtt r = None /\ shape r = shape l.
Proof. exact layout_as_pct_alignment. Qed.
Print Assumptions C18_relativize_keeps_alignment_and_shape.

Theorem C18_fit_recomputes_extent_only : forall l r, layout_fit l = Ok r ->
  l_origin r = l_origin l /\ l_padding r = l_padding l /\ l_alignment r = l_alignment l
  /\ (l_origin l = None -> r = l) /\ (l_origin l <> None -> l_extent r <> None /\ l_webvtt r = None).
Proof. exact layout_fit_keeps. Qed.
Print Assumptions C18_fit_recomputes_extent_only.

(* ---- the unit table of the working tree (regenerated every run) is the one model and spec use ------------ *)
Theorem C18_unit_table :
  map (fun nv => (unit_of_name (fst nv), snd nv)) unit_enum = map (fun u => (Some u, unit_str u)) spec_units.
Proof. exact unit_table_agrees. Qed.
Print Assumptions C18_unit_table.

(* ---- non-vacuity ------------------------------------------------------------------------------------------ *)
Example C18_ex_parse : size_from_string (lit "12.50%") = Ok (mkSize (25 # 2) PCT) /\ size_lang (lit "12.50%").
Proof.
  split; [vm_compute; reflexivity|].
  change (lit "12.50%") with (lit "12" ++ 46 :: lit "50" ++ unit_str PCT). apply SL_frac; reflexivity.
Qed.
Example C18_ex_reject : size_from_string (lit "1e3px") = Err ESyntax /\ size_from_string (lit "5.px") = Err ESyntax
                        /\ size_from_string (lit "-1px") = Err ESyntax /\ size_from_string (lit "7") = Err ESyntax.
Proof. vm_compute. repeat split. Qed.
Example C18_ex_print : size_str (mkSize (2675 # 1000) PX) = lit "2.68px" /\ size_str (mkSize (1 # 8) PCT) = lit "0.12%"
                       /\ size_str (mkSize (100 # 1) EM) = lit "100em" /\ size_str (mkSize (5 # 10) CELL) = lit "0.5c".
Proof. vm_compute. repeat split. Qed.
Example C18_ex_eq :
  let s v u := mkSize v u in
  let l1 := mkLayout (Some (mkPoint (s (1 # 2) PCT) (s (10 # 1) PCT))) None None None (Some (lit "line:5%")) in
  let l2 := mkLayout (Some (mkPoint (s (2 # 4) PCT) (s (10 # 1) PCT))) None None None None in
  let l3 := mkLayout (Some (mkPoint (s (1 # 2) PX) (s (10 # 1) PCT))) None None None None in
  layout_eqb l1 l2 = true /\ layout_eqb l1 l3 = false /\ gval_eqb (GSize (s (1 # 1) PX)) (GPoint (mkPoint (s (1 # 1) PX) (s (1 # 1) PX))) = false.
Proof. vm_compute. repeat split. Qed.
Example C18_ex_padding :
  padding_from_attr (lit "1px 2px 3px 4px")
  = Ok {| pd_before := mkSize (1 # 1) PX; pd_end := mkSize (2 # 1) PX; pd_after := mkSize (3 # 1) PX; pd_start := mkSize (4 # 1) PX |}.
Proof. vm_compute. reflexivity. Qed.

(* instances of the theorems with hypotheses *)
Example C18_ex_print_parse :
  let a := mkSize (2675 # 1000) PX in
  (0 <= s_val a)%Q /\ size_from_string (size_str a) = Ok (mkSize (67 # 25) PX) /\ hundredths (s_val a) = 268.
Proof. vm_compute. repeat split; discriminate. Qed.
Example C18_ex_padding_attribute :
  let toks := [lit "1px"; lit "2px"; lit "3px"] in
  toks <> [] /\ Forall (free_of 32) toks
  /\ padding_from_attr (join [32] toks)
     = Ok {| pd_before := mkSize (1 # 1) PX; pd_after := mkSize (3 # 1) PX; pd_start := mkSize (2 # 1) PX; pd_end := mkSize (2 # 1) PX |}.
Proof.
  split; [discriminate|]. split; [|vm_compute; reflexivity].
  repeat constructor; intros H; discriminate.
Qed.
Example C18_ex_relative_layout :
  let s v := mkSize v PCT in
  let l := mkLayout (Some (mkPoint (s (10 # 1)) (s (20 # 1)))) (Some (mkStretch (s (50 # 1)) (s (5 # 1)))) None None (Some (lit "line:1")) in
  layout_relative l /\ layout_as_pct l None None = Ok (mkLayout (l_origin l) (l_extent l) None None None)
  /\ layout_fit l = Ok (mkLayout (l_origin l) (l_extent l) None None None).
Proof. split; [repeat constructor|split; vm_compute; reflexivity]. Qed.
Example C18_ex_norm :
  let a := mkLayout (Some (mkPoint (mkSize (1 # 2) PCT) (mkSize (10 # 1) PCT))) None None None (Some (lit "line:5%")) in
  let b := mkLayout (Some (mkPoint (mkSize (2 # 4) PCT) (mkSize (20 # 2) PCT))) None None None None in
  a <> b /\ norm_layout a = norm_layout b /\ layout_eqb a b = true.
Proof. split; [intros H; discriminate|split; vm_compute; reflexivity]. Qed.

(* ---- heap level: relativizing or fitting returns a new value without modifying the receiver ----------------------
   model/GeomStore.v: the methods on objects in a store (which objects are allocated, which references of the receiver go
   into the result).  Geometry objects have no mutators; the precise statement is: the operations only allocate. *)
Theorem C18_store_ops_allocate_only : forall w h v,
  extends (size_pct_s v w h) /\ extends (point_pct_s v w h) /\ extends (stretch_pct_s v w h)
  /\ extends (padding_pct_s v w h) /\ extends (layout_pct_s v w h) /\ extends (layout_fit_s v).
Proof. exact geom_ops_allocate_only. Qed.
Print Assumptions C18_store_ops_allocate_only.

(* no location of the store the call starts in is assigned - whatever it is reachable from *)
Theorem C18_store_no_location_assigned : forall A (m : SM A), extends m -> forall st st' a, m st = Ok (st', a) ->
  forall l, (l < length st)%nat -> get st' l = get st l.
Proof. exact extends_untouched. Qed.
Print Assumptions C18_store_no_location_assigned.

(* hence the identity-insensitive snapshot of the receiver (of any value of the old store) is the same after the call *)
Theorem C18_store_receiver_snapshot_unchanged : forall v w h st st' r fuel x,
  (layout_pct_s v w h st = Ok (st', r) \/ layout_fit_s v st = Ok (st', r)) ->
  wf st -> below (length st) x -> snap fuel st' x = snap fuel st x.
Proof. exact receiver_snapshot_unchanged. Qed.
Print Assumptions C18_store_receiver_snapshot_unchanged.

(* the result: Size.as_percentage_of and Layout.fit_to_screen return the receiver itself (percentage / no origin) or a new
   object; Point / Stretch / Padding / Layout.as_percentage_of always return a new object *)
Theorem C18_store_size_pct_self_or_new : forall v w h st st' r, size_pct_s v w h st = Ok (st', r) ->
  (r = v /\ st' = st) \/ (exists l, r = VLoc l /\ (length st <= l)%nat).
Proof. exact size_pct_self_or_new. Qed.
Print Assumptions C18_store_size_pct_self_or_new.
Theorem C18_store_layout_fit_self_or_new : forall v st st' r, layout_fit_s v st = Ok (st', r) ->
  (r = v /\ st' = st) \/ (exists l, r = VLoc l /\ (length st <= l)%nat).
Proof. exact layout_fit_self_or_new. Qed.
Print Assumptions C18_store_layout_fit_self_or_new.
Theorem C18_store_as_percentage_new_object : forall v w h,
  fresh (point_pct_s v w h) /\ fresh (stretch_pct_s v w h) /\ fresh (padding_pct_s v w h) /\ fresh (layout_pct_s v w h).
Proof. exact as_percentage_new_object. Qed.
Print Assumptions C18_store_as_percentage_new_object.

(* the VALUE of the result, Size level: the heap operation returns an object that decodes to Size.as_percentage_of of the
   decoded receiver, and raises the same exception otherwise *)
Theorem C18_store_size_pct_value : forall v w h st a, dec_size st v = Some a ->
  match size_pct_s v w h st, size_as_pct a w h with
  | Ok (st', r), Ok a' => dec_size st' r = Some a'
  | Err e, Err e' => e = e'
  | _, _ => False
  end.
Proof. exact size_pct_value. Qed.
Print Assumptions C18_store_size_pct_value.

(* ... and Layout level: on a well-formed store, the result of Layout.as_percentage_of / fit_to_screen decodes to the
   value-level layout_as_pct / layout_fit of the decoded receiver (the functions C13's theorems are about); same exception
   otherwise.  So the heap model refines the value model, and adds only allocation and sharing. *)
Theorem C18_store_layout_pct_value : forall lv w h st l, wf st -> dec_layout st (VLoc lv) = Some l ->
  match layout_pct_s (VLoc lv) w h st, layout_as_pct l w h with
  | Ok (st', r), Ok l' => dec_layout st' r = Some l'
  | Err e, Err e' => e = e'
  | _, _ => False
  end.
Proof. exact layout_pct_value. Qed.
Print Assumptions C18_store_layout_pct_value.
Theorem C18_store_layout_fit_value : forall lv st l, wf st -> dec_layout st (VLoc lv) = Some l ->
  match layout_fit_s (VLoc lv) st, layout_fit l with
  | Ok (st', r), Ok l' => dec_layout st' r = Some l'
  | Err e, Err e' => e = e'
  | _, _ => False
  end.
Proof. exact layout_fit_value. Qed.
Print Assumptions C18_store_layout_fit_value.

(* which parts of the result are the receiver's own objects (1), other objects (0), None (2); paths: the layout, origin, x, y,
   extent, horizontal, vertical, padding, before, after, start, end, alignment.  The decoded result is the value-level one. *)
Example C18_ex_store_profile :
  let l := mkLayout (Some (mkPoint (mkSize (64 # 1) PX) (mkSize (10 # 1) PCT))) (Some (mkStretch (mkSize (50 # 1) PCT) (mkSize (99 # 1) PCT)))
                    None (Some (mkAlign (Some HLeft) None)) (Some (lit "line:1")) in
  layout_op_profile 0 (Some (640 # 1)) (Some (360 # 1)) l
    = Ok (Some (mkLayout (Some (mkPoint (mkSize (10 # 1) PCT) (mkSize (10 # 1) PCT))) (l_extent l) None (l_alignment l) None),
          [0; 0; 0; 1; 0; 1; 1; 2; 2; 2; 2; 2; 1])
  /\ match layout_as_pct l (Some (640 # 1)) (Some (360 # 1)), layout_op_profile 0 (Some (640 # 1)) (Some (360 # 1)) l with
     | Ok a, Ok (Some b, _) => a = b | _, _ => False end
  /\ layout_op_profile 1 None None (mkLayout (Some (mkPoint (mkSize (10 # 1) PCT) (mkSize (10 # 1) PCT))) (l_extent l) None (l_alignment l) None)
    = Ok (Some (mkLayout (Some (mkPoint (mkSize (10 # 1) PCT) (mkSize (10 # 1) PCT)))
                         (Some (mkStretch (mkSize (50 # 1) PCT) (mkSize (85 # 1) PCT))) None (l_alignment l) None),
          [0; 1; 1; 1; 0; 1; 0; 2; 2; 2; 2; 2; 1])
  /\ layout_op_profile 1 None None (mkLayout None (l_extent l) None None None) = Ok (Some (mkLayout None (l_extent l) None None None),
          [1; 2; 2; 2; 1; 1; 1; 2; 2; 2; 2; 2; 2]).
Proof. vm_compute. repeat split. Qed.

(* ==== wave 7: to_xml_attribute / from_xml_attribute of Point, Stretch, Padding ====================================== *)
From PV Require Import model.Positioning spec.SpecPos proofs.Pos12Facts proofs.GeomAttrFacts.

(* TwoDimensionalObject.from_xml_attribute on "t1 t2 .. tk" (single spaces, tokens without spaces): exactly two tokens,
   each parsed as a size; any other number of tokens is a ValueError *)
Theorem C18_two_sizes_attribute : forall toks, toks <> [] -> Forall (free_of 32) toks ->
  two_sizes (join [32] toks)
  = match toks with
    | [a; b] => do x <- size_from_string a; do y <- size_from_string b; Ok (x, y)
    | _ => Err ValueError
    end.
Proof. exact two_sizes_tokens. Qed.
Print Assumptions C18_two_sizes_attribute.

(* "re-parsing a printed value reproduces it" for the composite values (non-negative lengths): the attribute printed by
   to_xml_attribute is accepted by from_xml_attribute, every component comes back in its own slot as its two-decimal
   rounding (so within 1/200: C18_print_stable), and printing the result gives the same attribute again *)
Theorem C18_point_attribute_roundtrip : forall p, (0 <= s_val (p_x p))%Q -> (0 <= s_val (p_y p))%Q ->
  exists p', point_of_attr (point_attr p) = Ok p'
    /\ size_equiv (p_x p') (round2 (p_x p)) /\ size_equiv (p_y p') (round2 (p_y p))
    /\ point_attr p' = point_attr p.
Proof. exact point_attr_roundtrip. Qed.
Print Assumptions C18_point_attribute_roundtrip.

Theorem C18_stretch_attribute_roundtrip : forall p, (0 <= s_val (st_h p))%Q -> (0 <= s_val (st_v p))%Q ->
  exists p', stretch_of_attr (stretch_attr p) = Ok p'
    /\ size_equiv (st_h p') (round2 (st_h p)) /\ size_equiv (st_v p') (round2 (st_v p))
    /\ stretch_attr p' = stretch_attr p.
Proof. exact stretch_attr_roundtrip. Qed.
Print Assumptions C18_stretch_attribute_roundtrip.

(* Padding prints before, end, after, start; the four-value branch of the shorthand puts each one back where it was *)
Theorem C18_padding_attribute_roundtrip : forall p, (0 <= s_val (pd_before p))%Q -> (0 <= s_val (pd_after p))%Q ->
  (0 <= s_val (pd_start p))%Q -> (0 <= s_val (pd_end p))%Q ->
  exists p', padding_from_attr (padding_attr p) = Ok p'
    /\ size_equiv (pd_before p') (round2 (pd_before p)) /\ size_equiv (pd_after p') (round2 (pd_after p))
    /\ size_equiv (pd_start p') (round2 (pd_start p)) /\ size_equiv (pd_end p') (round2 (pd_end p))
    /\ padding_attr p' = padding_attr p.
Proof. exact padding_attr_roundtrip. Qed.
Print Assumptions C18_padding_attribute_roundtrip.

Example C18_ex_point_stretch_roundtrip :
  let p := mkPoint (mkSize (2675 # 1000) PX) (mkSize (1 # 8) PCT) in
  let e := mkStretch (mkSize (5 # 10) CELL) (mkSize (100 # 1) EM) in
  point_attr p = lit "2.68px 0.12%" /\ point_of_attr (point_attr p) = Ok (mkPoint (mkSize (67 # 25) PX) (mkSize (3 # 25) PCT))
  /\ stretch_attr e = lit "0.5c 100em" /\ stretch_of_attr (stretch_attr e) = Ok (mkStretch (mkSize (1 # 2) CELL) (mkSize (100 # 1) EM)).
Proof. vm_compute. repeat split. Qed.
Example C18_ex_attribute_roundtrip :
  let p := {| pd_before := mkSize (2675 # 1000) PX; pd_after := mkSize (1 # 8) PCT; pd_start := mkSize (5 # 10) CELL; pd_end := mkSize (100 # 1) EM |} in
  padding_attr p = lit "2.68px 100em 0.12% 0.5c"
  /\ padding_from_attr (padding_attr p)
     = Ok {| pd_before := mkSize (67 # 25) PX; pd_after := mkSize (3 # 25) PCT; pd_start := mkSize (1 # 2) CELL; pd_end := mkSize (100 # 1) EM |}
  /\ two_sizes (lit "1px 2px 3px") = Err ValueError /\ two_sizes (lit "1px") = Err ValueError.
Proof. vm_compute. repeat split. Qed.

(* ==== round 4 ========================================================================================================= *)
From PV Require Import proofs.GeomHashPrintFacts.

(* the hash clause per class (instances of C18_eq_implies_hash_eq, spelled out): == values of Size / Point / Stretch /
   Padding / Alignment / Layout - Layout and Alignment components may be None - have equal hashes, for every hash function
   of floats, enum members, None and ints *)
Theorem C18_hash_eq_per_class :
  forall (hq : Q -> Z) (hu : unit_ -> Z) (hh : option halign -> Z) (hv : option valign -> Z) (hnone : Z) (hint : Z -> Z),
    (forall a b, size_eqb a b = true -> size_hash hq hu hint a = size_hash hq hu hint b)
    /\ (forall a b, point_eqb a b = true -> point_hash hq hu hint a = point_hash hq hu hint b)
    /\ (forall a b, stretch_eqb a b = true -> stretch_hash hq hu hint a = stretch_hash hq hu hint b)
    /\ (forall a b, padding_eqb a b = true -> padding_hash hq hu hint a = padding_hash hq hu hint b)
    /\ (forall a b, alignment_eqb a b = true -> alignment_hash hh hv hint a = alignment_hash hh hv hint b)
    /\ (forall a b, layout_eqb a b = true -> layout_hash hq hu hh hv hnone hint a = layout_hash hq hu hh hv hnone hint b).
Proof. exact hash_eq_per_class. Qed.
Print Assumptions C18_hash_eq_per_class.

(* Size printing on EVERY non-negative rational, as one Prop-level statement: the printed string is in canonical form
   (digits without a leading zero, optionally a point and one or two digits without a trailing zero, then the unit), and
   Size.from_string reads it back with the same unit and a value within 1/200 *)
Theorem C18_print_canonical_reparse : forall a, (0 <= s_val a)%Q ->
  exists ip fp z,
    size_str a = dotted ip fp ++ unit_str (s_unit a)
    /\ all_digits ip = true /\ (fp = [] \/ all_digits fp = true)
    /\ no_leading_zero ip /\ (length fp <= 2)%nat /\ no_trailing_zero fp
    /\ size_from_string (size_str a) = Ok z /\ s_unit z = s_unit a /\ (Qabs (s_val z - s_val a) <= 1 # 200)%Q.
Proof. exact print_canonical_reparse. Qed.
Print Assumptions C18_print_canonical_reparse.

Example C18_ex_layout_hash_none :
  let a := mkLayout None None None (Some (mkAlign None (Some VTop))) (Some (lit "line:1")) in
  let b := mkLayout None None None (Some (mkAlign None (Some VTop))) None in
  layout_eqb a b = true
  /\ layout_hash (fun q => Qnum q) (fun _ => 1) (fun _ => 2) (fun _ => 3) 7 (fun z => z) a
     = layout_hash (fun q => Qnum q) (fun _ => 1) (fun _ => 2) (fun _ => 3) 7 (fun z => z) b.
Proof. vm_compute. split; reflexivity. Qed.
