(* C17 - SCC output is structurally valid and re-reads to the same words. (theorems added below) *)
From Coq Require Import List ZArith QArith Bool.
From PV Require Import lib.Sx lib.Str lib.Result model.GenSccw model.SccWrap model.SccWrite spec.SpecSccw.
Import ListNotations.
