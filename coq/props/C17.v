(* C17 - SCC output is structurally valid and re-reads to the same words.
   Only statements closed by `exact`, with Print Assumptions, and non-vacuity examples. *)
From Coq Require Import List ZArith QArith Bool.
From PV Require Import lib.Sx lib.Str lib.Result model.GenSccw model.SccWrap model.SccWrite spec.SpecSccw.
From PV Require Import proofs.SccWriteFacts proofs.SccWrapFacts proofs.SccWordsFacts proofs.SccDecodeFacts
     proofs.SccLayoutFacts proofs.SccTimingFacts model.SccRoundTrip model.SccDecoder proofs.SccDocFacts proofs.SccComposeFacts
     proofs.SccRoundTripFacts proofs.SccwBridgeFacts.
From PV Require Import model.SccStash model.SccTime.
From PV Require proofs.SccRereadNodes proofs.SccRereadLines proofs.SccRereadLoad proofs.SccRereadTime proofs.SccRereadDoc model.SccRereadDom proofs.SccRereadDomFacts.
Import ListNotations.
Open Scope Q_scope.

(* ---- tables of the working tree (complete, re-proved on every run) ------------------------------- *)
(* every basic code, every special/extended code, the substitute for unknown characters, the filler, the
   four fixed control words have odd parity in each byte *)
Theorem C17_table_parity :
  forallb (fun kv => odd_parity (snd kv)) sccw_character_to_code = true /\
  forallb (fun kv => odd_word (snd kv)) sccw_special_or_extended_to_code = true /\
  odd_parity 145 && odd_parity 182 = true /\ odd_parity 128 = true /\
  forallb (fun w => odd_parity (fst w) && odd_parity (snd w)) [ENM; RCL; EDM; EOC] = true.
Proof. exact (conj tbl_basic_parity (conj tbl_special_parity (conj tbl_unknown_parity (conj tbl_filler_parity tbl_controls_parity)))). Qed.
Print Assumptions C17_table_parity.

(* for each row 1..15 the PAC the writer looks up exists, has odd parity, and is the CEA-608 preamble
   address code of exactly that row at column 0 *)
Theorem C17_table_pac_rows : forall row, (1 <= row <= 15)%Z -> pac_ok row = true.
Proof. exact pac_ok_row. Qed.
Print Assumptions C17_table_pac_rows.

(* the writer's basic table lies inside the CEA-608 basic character set and covers its codes 0x20..0x7e (the
   solid block 0x7f is a CEA-608 basic code the tree's table does not contain; the specification accepts it, so a
   tree that added it would still pass the first conjunct), and the reader's CHARACTERS table inverts it *)
Theorem C17_table_basic_set :
  forallb (fun kv => match cea_basic (snd kv mod 128) with Some c => (c =? fst kv)%Z | None => false end)
          sccw_character_to_code = true /\
  forallb (fun b => match cea_basic b with
                    | Some c => match assoc c sccw_character_to_code with Some b' => (b' mod 128 =? b)%Z | None => false end
                    | None => true end) (map Z.of_nat (seq 32 95)) = true /\
  forallb (fun kv => match assoc (snd kv) sccw_reader_characters with Some c => (c =? fst kv)%Z | None => false end)
          sccw_character_to_code = true.
Proof. exact (conj tbl_basic_is_cea (conj tbl_basic_covers_cea tbl_reader_inverts)). Qed.
Print Assumptions C17_table_basic_set.

(* HEADER is the Scenarist header.  The second conjunct is informational only: the tree's float
   MICROSECONDS_PER_CODEWORD is within 2^-30 us of the exact 1001000/30 the model computes with; no other theorem
   uses this bound (binary64 arithmetic is correspondence only) *)
Theorem C17_table_constants :
  sccw_header = scenarist_header /\
  Qle_bool (Qabs.Qabs ((sccw_mpc_num # Z.to_pos sccw_mpc_den) - mpc)) (1 # 1073741824) = true.
Proof. exact (conj tbl_header tbl_mpc_close). Qed.
Print Assumptions C17_table_constants.

(* ---- every byte has odd parity: any text at all (unknown characters included) laid out on at most 15
        rows is encoded, without error, into words whose bytes all have odd parity -------------------- *)
Theorem C17_all_bytes_odd_parity : forall text, (length (layout_rows text) <= 15)%nat ->
  exists ws, text_to_words text = Ok ws /\ forallb word_odd ws = true.
Proof. exact all_bytes_odd_parity. Qed.
Print Assumptions C17_all_bytes_odd_parity.

(* ---- word stream shape: the code string the writer builds (len(code) % 5 bookkeeping, "80 " padding) is
        exactly the rendering of the word stream: 2+2 lowercase hex digits and a space per word ------- *)
Theorem C17_word_stream_shape_unfold : forall text,
  text_to_code text = (do ws <- text_to_words text; Ok (render_words ws)).
Proof. exact word_stream_shape. Qed.
Print Assumptions C17_word_stream_shape_unfold.
Theorem C17_rendered_word_parses : forall hi lo, (0 <= hi < 256)%Z -> (0 <= lo < 256)%Z ->
  exists a b c d, render_word (hi, lo) = [a; b; c; d; 32%Z] /\ parse_word [a; b; c; d] = Some (hi, lo).
Proof. exact render_word_parses. Qed.
Print Assumptions C17_rendered_word_parses.

(* ---- rows addressed: 16-n .. 15 in order, all within 1..15 when 1 <= n <= 15 ----------------------- *)
Theorem C17_rows_1_15 : forall text, (length (layout_rows text) <= 15)%nat ->
  (1 <= length (layout_rows text))%nat /\
  map fst (layout_rows text)
  = map (fun i => (16 - Z.of_nat (length (layout_rows text)) + Z.of_nat i)%Z) (seq 0 (length (layout_rows text))) /\
  forall r, In r (layout_rows text) -> (1 <= fst r <= 15)%Z.
Proof.
  exact (fun text H => conj (layout_rows_count text)
                        (conj (layout_rows_fst text) (layout_rows_valid text H))).
Qed.
Print Assumptions C17_rows_1_15.

(* ---- rows of at most 32 columns (all texts) ------------------------------------------------------ *)
Theorem C17_rows_le_32 : forall text r, In r (map snd (layout_rows text)) -> (length r <= 32)%nat.
Proof. exact rows_le_32. Qed.
Print Assumptions C17_rows_le_32.
Theorem C17_wrap_rows_le_width : forall width text r, In r (wrap width text) -> (length r <= width)%nat.
Proof. exact wrap_rows_le. Qed.
Print Assumptions C17_wrap_rows_le_width.

(* ---- wrapping removes only whitespace (all texts, all widths >= 1) ----------------------------------- *)
Theorem C17_wrap_keeps_nonspace : forall width text, (1 <= width)%nat ->
  ns (concat (wrap width text)) = ns text.
Proof. exact wrap_keeps_nonspace. Qed.
Print Assumptions C17_wrap_keeps_nonspace.

(* ---- rows are broken only at spaces; only words longer than the width are split ------------------------
   `refines w ws ps` (spec/SpecSccw.v, the relation the check's oracle evaluates): every word of ws appears
   whole in ps, or - only when longer than w - as consecutive non-empty pieces; nothing else appears. *)
Theorem C17_wrap_refines_words : forall width text, (1 <= width)%nat -> plain text = true ->
  refines width (words text) (flat_map words (wrap width text)) = true.
Proof. exact wrap_refines_words. Qed.
Print Assumptions C17_wrap_refines_words.
(* the whole caption (lines separated by line breaks), for every text over the tree's basic character set *)
Theorem C17_layout_refines_words : forall text, basic_text text = true ->
  refines 32 (words text) (flat_map words (map snd (layout_rows text))) = true.
Proof. exact layout_refines_words_basic. Qed.
Print Assumptions C17_layout_refines_words.

(* ---- re-reading at the level of CEA-608: the specification's decoder, run on the writer's word stream for a
        text over the basic set laid out on <= 15 rows, returns exactly the rows (number, text) -------------- *)
Theorem C17_decode_rows : forall text, basic_text text = true -> (length (layout_rows text) <= 15)%nat ->
  exists ws, text_to_words text = Ok ws /\ decode_body ws None [] = Some (layout_rows text).
Proof. exact decode_rows_basic. Qed.
Print Assumptions C17_decode_rows.

(* ---- wave 2: the writer model composed, through the document, with the full SCC reader model (builder sccr's
        model.SccDecoder.read). roundtrip_ok caps = the reader model returns one caption per cue, with the same words
        (over-long words in pieces) and a start within 3 frames. Complete-table statements over the working tree's basic
        character table, decided through BOTH models; arbitrary texts are checked by the extracted composition on every
        generated case. ------------------------------------------------------------------------------------------ *)
(* the document itself: for cues with non-negative times on <= 15 rows the text the writer model produces is a
   Scenarist document that the specification's parser splits into lines whose frame numbers are those of the times
   written (load line and optional clear line per caption) and whose every byte has odd parity *)
Theorem C17_document_parses : forall caps doc, write caps = Ok doc ->
  (forall c, In c caps -> 0 <= w_start c /\ 0 <= w_end c /\ (length (layout_rows (w_text c)) <= 15)%nat) ->
  exists codes lines,
    res_map (fun c => do code <- text_to_code (w_text c); Ok (code, w_start c, w_end c)) caps = Ok codes /\
    parse_document doc = Some lines /\
    map fst lines = map tc_frames (emitted (pass2 [] codes)) /\
    forallb (fun l => forallb word_odd (snd l)) lines = true.
Proof. exact document_parses. Qed.
Print Assumptions C17_document_parses.
(* PARTIAL re-read statement: under the statement's hypotheses the writer model does not fail, its document satisfies
   the whole output oracle, and the reader model is run on exactly the lines the oracle judged.  What the reader model
   RETURNS is proved only for the complete character tables below and evaluated (request 1705) on generated cases *)
Theorem C17_reread_input_partial : forall caps, Forall cap_dom caps -> caps_spaced 0 caps ->
  exists doc lines, write caps = Ok doc /\ parse_document doc = Some lines
                    /\ ok_output (map to_cue caps) doc = 0%Z
                    /\ reread caps = RRRead (read 0 (map to_sline lines)).
Proof. exact reread_input_ok. Qed.
Print Assumptions C17_reread_input_partial.

Theorem C17_roundtrip_every_basic_char_partial :
  forallb (fun c => roundtrip_ok (one_cap (lit "a" ++ [c] ++ lit "b")) && roundtrip_ok (one_cap ([c] ++ lit "ab c")))
          (filter (fun c => negb (c =? 32)%Z) basic_cps) = true.
Proof. exact roundtrip_every_basic_char. Qed.
Print Assumptions C17_roundtrip_every_basic_char_partial.
Theorem C17_roundtrip_basic_pairs_partial :
  forallb (fun c1 => forallb (fun c2 => roundtrip_ok (one_cap ([c1; c2]))) neighbours)
          (filter (fun c => negb (c =? 32)%Z) basic_cps) = true.
Proof. exact roundtrip_basic_pairs. Qed.
Print Assumptions C17_roundtrip_basic_pairs_partial.

(* wave 5: every number of rows 1..15 - hence every preamble address code the writer can emit -, as explicit lines and as
   rows produced by wrapping, alone and between other cues, through BOTH models (sample theorem) *)
Theorem C17_roundtrip_every_row_count_partial :
  forallb (fun n => roundtrip_ok (one_cap (n_lines n)) && roundtrip_ok (three_caps (n_lines n))
                    && roundtrip_ok (one_cap (n_wrapped n))) (seq 1 15) = true.
Proof. exact roundtrip_every_row_count. Qed.
Print Assumptions C17_roundtrip_every_row_count_partial.

(* wave 5: the writer's word stream in closed form, and its relation to builder sccr's pop-on programs (spec/SpecScc05.v).
   The stream of a text over the basic set on <= 15 rows is, row by row, PAC PAC followed by the row's bytes in pairs
   (filler 0x80 for an odd tail); the character words are exactly sccr's `pack true` of the row's characters; the PACs are
   the INDENT form with indent 0 (attribute 16), which sccr's `row` type cannot express (it emits the style form 0..15 at
   indent 0) - together with the EDM EDM in front of EOC EOC this is why `C05_popon_refines_608` does not apply to the
   writer's documents as they are, and why the re-read clause for arbitrary texts stays a checked correspondence *)
Theorem C17_word_stream_closed_form : forall text ws, (length (layout_rows text) <= 15)%nat -> basic_text text = true ->
  text_to_words text = Ok ws -> ws = flat_map roww (layout_rows text).
Proof. exact text_words_explicit. Qed.
Print Assumptions C17_word_stream_closed_form.
Theorem C17_row_characters_are_608_pack : forall line, forallb is_basic line = true ->
  map word_z (pair_up (map byte_of line))
  = SpecScc05.pack true (flat_map SpecScc05.toks_of_item (map SpecScc05.Ch line)) None.
Proof. exact row_chars_emit. Qed.
Print Assumptions C17_row_characters_are_608_pack.
Theorem C17_pac_is_indent_form :
  forallb (fun row => match py_index sccw_pac_high_byte_by_row row, py_index sccw_pac_low_byte_by_row_restricted row with
                      | Ok h, Ok l => ((h * 256 + l =? Spec608.pac_word row 16) && negb (h * 256 + l =? Spec608.pac_word row 0))%Z
                      | _, _ => false end) (map Z.of_nat (seq 1 15)) = true.
Proof. exact tbl_pac_is_indent_form. Qed.
Print Assumptions C17_pac_is_indent_form.

(* ---- timing ------------------------------------------------------------------------------------------ *)
(* under the spacing hypothesis the frame numbers written are non-negative and non-decreasing *)
Theorem C17_timecodes_monotone : forall codes, spaced 0 codes ->
  chainZ 0 (map tc_frames (emitted (pass2 [] codes))).
Proof. exact timecodes_monotone. Qed.
Print Assumptions C17_timecodes_monotone.
(* the timecode text parses back to the frame number *)
Theorem C17_timestamp_roundtrip : forall t, 0 <= t -> parse_timecode (format_timestamp t) = Some (tc_frames t).
Proof. exact timestamp_roundtrip. Qed.
Print Assumptions C17_timestamp_roundtrip.
(* the load is displayed between 3 and 2 frames before the cue's start (n + 6 = index of the first End-Of-Caption in
   the load line: SccComposeFacts.index_of_load derives it from the line the writer model emits) *)
Theorem C17_visible_within_3_frames : forall code start,
  0 <= start - code_words code * mpc ->
  let n := (Z.of_nat (length code) / 5)%Z in
  let shown := inject_Z (tc_frames (pre_roll code start) + (n + 6)) * mpc in
  start - 3 * mpc < shown /\ shown <= start - 2 * mpc.
Proof. exact visible_within_3_frames. Qed.
Print Assumptions C17_visible_within_3_frames.

(* ---- THE COMPOSED STATEMENT (wave 3): for caption sets over the basic set, each caption laid out on <= 15 rows, cues
        ordered, not overlapping and each starting at least its own transmission time (body words + 8 framing words,
        one frame each) after the previous cue's start, the document the writer model produces gets verdict 0 from
        the property oracle: Scenarist document of hex words, odd parity everywhere, one pop-on load per cue whose body
        decodes to distinct rows within 1..15 of <= 32 columns carrying the text's words (long words in pieces),
        displayed within three frames of the start, timecodes non-decreasing ------------------------------------ *)
Theorem C17_write_meets_oracle : forall caps doc,
  write caps = Ok doc -> Forall cap_dom caps -> caps_spaced 0 caps -> ok_output (map to_cue caps) doc = 0%Z.
Proof. exact write_meets_oracle. Qed.
Print Assumptions C17_write_meets_oracle.


(* ---- wave 7: the re-read clause THROUGH THE READER MODEL, for arbitrary texts ------------------------------------------
   Builder sccr's reader model (model/SccDecoder.v: double-command filter, position tracker, node creator, the seven
   passes of _format_italics, CaptionCreator, the caption store of model/SccStash.v, the clock of model/SccTime.v) is run
   on the writer model's own layout: ENM ENM RCL RCL, per row PAC PAC (indent form, indent 0) and the row's characters in
   pairs, EDM EDM EOC EOC, clear lines EDM EDM.  No bound on texts, rows (within 1..15), number of cues. *)

(* a buffer of text and break nodes (what the writer's loads produce) becomes exactly ONE caption whose observed
   (stripped) text has the words of the buffer - the seven passes only drop empty nodes and strip line ends *)
Theorem C17_plain_buffer_one_caption : forall nodes s e, SccRereadNodes.plain nodes = true -> forallb SccRereadNodes.tame_node nodes = true ->
  exists cn lay, build_captions (format_italics nodes) s e [] (mkPre s e [] None) = [mkPre s e cn lay]
                 /\ words (strip (concat (map node_text cn))) = words (SccRereadNodes.ntext nodes).
Proof. exact SccRereadDoc.caption_strip. Qed.
Print Assumptions C17_plain_buffer_one_caption.

(* ONE LOAD LINE, any rows of basic characters on consecutive rows first .. first+n-1 within 1..15.
   Which reader states it covers (audit w7 - NOT "any state"): exactly the states `SccRereadLoad.ST pa ro off st tk LNone ds
   nodes0 q tm tc0 fr0`, i.e. no error recorded (r_err = None), pop-on mode active (r_active = MPop), last command of the
   double-command filter = none (r_last = LNone; every line of the writer ends in a doubled code, which leaves LNone), pop-on
   buffer with style none (cr_style = SNone; the writer never sends italics) and ANY nodes; free: stash, tracker, double-starter
   flag, queue, time, previous timecode / frame count, offset, the paint-on and roll-up buffers (pa, ro: never touched).
   These are the states the writer's own lines lead to from the initial state (proofs/SccRereadDoc.v items_run).
   Conclusion: the caption on display is closed at the first EDM (word n+4: `closed`), and a text-and-break buffer with
   exactly the words of the rows - and lines as short as the rows - is queued with the instant of the first EOC (word n+6)
   as its start (`queued`: nothing is queued when all rows are blank).  `closed` / `queued` / `after_eoc` / `load_words` are
   defined next to the proof (proofs/SccRereadLoad.v): closed st q t = create_and_store of the queued caption with end t;
   queued nodes t = Some (buffer, t) unless the buffer is empty; load_words = the words ENM ENM RCL RCL rows EDM EDM EOC EOC *)
Theorem C17_reader_on_load_line : forall pa ro off lines first st tk ds nodes0 q tm tc0 fr0 tc t1 t2,
  (1 <= first)%Z -> (first + Z.of_nat (length lines) <= 16)%Z ->
  Forall (fun line => forallb is_basic line = true) lines ->
  get_time tc (Z.of_nat (length (flat_map roww (number_rows first lines))) + 4) off = Ok t1 ->
  get_time tc (Z.of_nat (length (flat_map roww (number_rows first lines))) + 6) off = Ok t2 ->
  exists tk' ds' nodes,
    translate_line (SccRereadLoad.ST pa ro off st tk LNone ds nodes0 q tm tc0 fr0) (tc, SccRereadLoad.load_words first lines)
    = SccRereadLoad.ST pa ro off (SccRereadLoad.closed st q t1) tk' LNone ds' (SccRereadLoad.after_eoc nodes) (SccRereadLoad.queued nodes t2) t2 tc
         (Z.of_nat (length (flat_map roww (number_rows first lines))) + 8)
    /\ SccRereadNodes.plain nodes = true /\ forallb SccRereadNodes.tame_node nodes = true /\ words (SccRereadNodes.ntext nodes) = flat_map words lines
    /\ (SccRereadLoad.rows_short lines -> SccRereadLines.short (SccRereadNodes.ntext nodes) = true).
Proof. exact SccRereadLoad.load_line_run. Qed.
Print Assumptions C17_reader_on_load_line.

(* the reader's clock on the writer's timecodes: word k of a line stamped with frame f (below 100 h) is decoded at
   (f + k) frames of 1001/30 ms *)
Theorem C17_reader_clock_on_written_timecode : forall f k, (0 <= f < 10800000)%Z -> (0 <= k)%Z ->
  exists t, get_time (format_frames f) k 0 = Ok t /\ t == inject_Z (f + k) * mpc.
Proof. exact SccRereadTime.get_time_frames. Qed.
Print Assumptions C17_reader_clock_on_written_timecode.

(* the reader's line-length scan (model/SccLen.v length_check) lets through every caption list whose texts have no run of
   more than 32 characters between newlines *)
Theorem C17_short_lines_pass_length_scan : forall caps : list SccLen.lcap,
  Forall (fun c => SccRereadLines.short (snd c) = true) caps -> SccLen.length_check caps = None.
Proof. exact SccRereadLines.short_texts_pass_length_check. Qed.
Print Assumptions C17_short_lines_pass_length_scan.

(* THE WHOLE DOCUMENT.  Domain caps_ok: the composed statement's (basic set, <= 15 rows, cues ordered / not overlapping /
   spaced by their transmission time, start <= end) plus: every cue has a word (a whitespace-only cue is the known
   finding C17-whitespace-only-cue-not-reread) and ends below 100 h (two-digit hours).
   C17_reader_store_on_written_document (audit w7: the statement is existential - THERE IS a store stf whose finish_read is
   the reader model's answer; the proof takes the decoder's final store `closed st' q' 0`, the statement does not pin it;
   the answer itself is pinned by C17_reread_store below): the decoder does not raise; a caption store holds exactly one
   caption per cue, in order, with the cue's words and a start within three frames; every stored caption has lines of at
   most 32 characters (each decoded line is one written row, stripped) and is displayed for at least two frames or not
   at all (round 4: the closing EDM comes at least two frames after the EOC, by C17_visible_within_3_frames, start <= end
   and the spacing hypothesis) - so neither the line-length scan nor the flash check of SCCReader.read can refuse it.
   C17_reread_store / C17_roundtrip_ok: hence the reader model RETURNS captions for the writer model's document, and they
   satisfy the property's re-read clause - the statement that request 1705 evaluates on every generated case *)
(* the domain contains every list that satisfies the composed statement's hypotheses (and whose cues have a word and end
   below 100 h); it is wider: `end <= next start` is not asked for *)
Theorem C17_reread_domain_contains_composed : forall caps, Forall cap_dom caps -> caps_spaced 0 caps ->
  Forall SccRereadDoc.has_word caps -> Forall SccRereadDoc.below_100h caps -> SccRereadDoc.caps_ok caps.
Proof. exact SccRereadDoc.caps_ok_of_composed. Qed.
Print Assumptions C17_reread_domain_contains_composed.
Theorem C17_reader_store_on_written_document : forall caps, SccRereadDoc.caps_ok caps ->
  exists stf, reread caps = RRRead (finish_read stf)
              /\ ok_reread (map to_cue caps) (map SccRereadDoc.obs (st_caps stf)) = 0%Z
              /\ length (st_caps stf) = length caps
              /\ Forall (fun pc => is_flash pc = false /\ SccRereadLines.short (cap_text pc) = true) (st_caps stf).
Proof. exact SccRereadDoc.reread_stash. Qed.
Print Assumptions C17_reader_store_on_written_document.
Theorem C17_reread_store : forall caps, SccRereadDoc.caps_ok caps -> caps <> [] ->
  exists pcs, reread caps = RRRead (ROk pcs) /\ ok_reread (map to_cue caps) (map SccRereadDoc.obs pcs) = 0%Z
              /\ length pcs = length caps.
Proof. exact SccRereadDoc.reread_store. Qed.
Print Assumptions C17_reread_store.
Theorem C17_roundtrip_ok : forall caps, SccRereadDoc.caps_ok caps -> caps <> [] -> roundtrip_ok caps = true.
Proof. exact SccRereadDoc.roundtrip_ok_all. Qed.
Print Assumptions C17_roundtrip_ok.

(* the decidable domain predicate the harness evaluates on every generated case (request 1706) implies the hypothesis of
   the theorems above; on it the reader model's answer to the writer model's document is: captions (class 0) *)
Theorem C17_domain_predicate_sound : forall caps, SccRereadDom.caps_ok_b caps = true -> SccRereadDoc.caps_ok caps.
Proof. exact SccRereadDomFacts.caps_ok_b_sound. Qed.
Print Assumptions C17_domain_predicate_sound.
Theorem C17_reread_class_on_domain : forall caps, SccRereadDom.caps_ok_b caps = true -> caps <> [] ->
  SccRereadDom.reread_class caps = 0%Z.
Proof. exact SccRereadDomFacts.reread_class_on_domain. Qed.
Print Assumptions C17_reread_class_on_domain.

(* ---- non-vacuity ---------------------------------------------------------------------------------------- *)
Example C17_example_wrap :
  wrap 32 (lit "aaaaaaaaaa bbbbbbbbbb cccccccc-dddddddddd eee")
  = [lit "aaaaaaaaaa bbbbbbbbbb"; lit "cccccccc-dddddddddd eee"].
Proof. vm_compute. reflexivity. Qed.
Example C17_example_long_word :
  wrap 32 (lit "ab xxxxxxxxxxxxxxxxxxxxxxxxxxxxxxxxxxxxxxxx")
  = [lit "ab xxxxxxxxxxxxxxxxxxxxxxxxxxxxx"; lit "xxxxxxxxxxx"].
Proof. vm_compute. reflexivity. Qed.
Example C17_example_refines :
  basic_text (lit "ab xxxxxxxxxxxxxxxxxxxxxxxxxxxxxxxxxxxxxxxx") = true /\
  flat_map words (map snd (layout_rows (lit "ab xxxxxxxxxxxxxxxxxxxxxxxxxxxxxxxxxxxxxxxx")))
  = [lit "ab"; lit "xxxxxxxxxxxxxxxxxxxxxxxxxxxxx"; lit "xxxxxxxxxxx"] /\
  refines 32 [lit "ab"; lit "xxxxxxxxxxxxxxxxxxxxxxxxxxxxxxxxxxxxxxxx"]
             [lit "ab"; lit "xxxxxxxxxxxxxxxxxxxxxxxxxxxxxxxxxxxx"; lit "xxxx"] = true /\
  refines 32 [lit "cccccccc-dddddddddd"] [lit "cccccccc-"; lit "dddddddddd"] = false.
Proof. vm_compute. repeat split. Qed.
Example C17_example_code :
  text_to_code (lit "Hi!") = Ok (lit "9470 9470 c8e9 a180 ").
Proof. vm_compute. reflexivity. Qed.
Example C17_example_write :
  let caps := [mkWcap (lit "ab") (10000000 # 1) (12000000 # 1); mkWcap (lit "cd") (12000000 # 1) (13000000 # 1)] in
  spaced 0 (map (fun c => (lit "9470 9470 6162 ", w_start c, w_end c)) caps) /\
  write caps = Ok (lit "Scenarist_SCC V1.0" ++ [10; 10]%Z
     ++ lit "00:00:09:18" ++ [9%Z] ++ lit "94ae 94ae 9420 9420 9470 9470 6162 942c 942c 942f 942f" ++ [10; 10]%Z
     ++ lit "00:00:11:18" ++ [9%Z] ++ lit "94ae 94ae 9420 9420 9470 9470 e364 942c 942c 942f 942f" ++ [10; 10]%Z
     ++ lit "00:00:12:29" ++ [9%Z] ++ lit "942c 942c" ++ [10; 10]%Z).
Proof. split; [vm_compute; intuition discriminate|vm_compute; reflexivity]. Qed.
(* the hypotheses of the composed statement hold for an ordinary two-cue set (and its document is the one above) *)
Example C17_example_composed :
  let caps := [mkWcap (lit "ab") (10000000 # 1) (12000000 # 1); mkWcap (lit "cd") (12000000 # 1) (13000000 # 1)] in
  Forall cap_dom caps /\ caps_spaced 0 caps /\ (exists doc, write caps = Ok doc /\ ok_output (map to_cue caps) doc = 0%Z).
Proof.
  split; [repeat constructor|split; [vm_compute; intuition discriminate|eexists; split; [vm_compute; reflexivity|vm_compute; reflexivity]]].
Qed.
(* a cue 10 s in, 9 body words: the hypothesis of C17_visible_within_3_frames holds and the load is shown 2-3 frames early *)
Example C17_example_visible :
  let code := lit "9470 9470 6162 " in
  0 <= (10000000 # 1) - code_words code * mpc /\
  tc_frames (pre_roll code (10000000 # 1)) = 288%Z.
Proof. vm_compute. split; [discriminate|reflexivity]. Qed.
(* the domain of the wave-7 re-read theorems is inhabited, and on it the reader model does return captions *)
Example C17_example_reread :
  let caps := [mkWcap (lit "ab") (10000000 # 1) (12000000 # 1); mkWcap (lit "cd  ef") (12000000 # 1) (13000000 # 1)] in
  SccRereadDoc.caps_ok caps /\ SccRereadDom.caps_ok_b caps = true /\ (exists o, reread_obs caps = Some o) /\ roundtrip_ok caps = true.
Proof.
  split; [|split; [vm_compute; reflexivity|split; [eexists; vm_compute; reflexivity|vm_compute; reflexivity]]].
  split; [repeat constructor|split; [vm_compute; intuition discriminate|split]].
  - repeat constructor; vm_compute; discriminate.
  - repeat constructor.
Qed.
(* a cue that ends after the next one starts lies inside the domain of the re-read theorems (not inside caps_spaced) *)
Example C17_example_reread_overlapping_end :
  let caps := [mkWcap (lit "ab") (10000000 # 1) (12500000 # 1); mkWcap (lit "cd") (12000000 # 1) (13000000 # 1)] in
  SccRereadDoc.caps_ok caps /\ SccRereadDom.caps_ok_b caps = true /\ roundtrip_ok caps = true.
Proof.
  split; [|split; vm_compute; reflexivity].
  split; [repeat constructor|split; [vm_compute; intuition discriminate|split]].
  - repeat constructor; vm_compute; discriminate.
  - repeat constructor.
Qed.
(* C17_reader_on_load_line on one concrete two-row load line: its hypotheses hold (basic rows 14..15, the two clock readings
   exist) and the reader model, run by computation from the initial state, queues a buffer with the rows' words at the
   instant of word n+6 *)
Example C17_example_reader_on_load_line :
  let lines := [lit "ab"; lit "cd e"] in
  let tc := lit "00:00:10:00" in
  let n := Z.of_nat (length (flat_map roww (number_rows 14 lines))) in
  let s := translate_line (SccRereadLoad.ST creator0 creator0 0 stash0 tracker0 LNone false [] None 0 (lit "00:00:00;00") 0)
                          (tc, SccRereadLoad.load_words 14 lines) in
  Forall (fun line => forallb is_basic line = true) lines /\ n = 7%Z /\
  (exists t1 t2, get_time tc (n + 4) 0 = Ok t1 /\ get_time tc (n + 6) 0 = Ok t2 /\
     r_err s = None /\ r_frames s = (n + 8)%Z /\
     match r_queue s with
     | Some (c, t) => t = t2 /\ words (SccRereadNodes.ntext (cr_nodes c)) = [lit "ab"; lit "cd"; lit "e"]
     | None => False
     end).
Proof.
  split; [repeat constructor|]. split; [vm_compute; reflexivity|].
  eexists _, _. split; [vm_compute; reflexivity|]. split; [vm_compute; reflexivity|]. vm_compute. repeat split.
Qed.
