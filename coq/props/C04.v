(* C04 - read text equals authored text: entities decoded once, markup stripped.
   Only statements closed by `exact`, each followed by Print Assumptions, plus non-vacuity Examples.
   Models: model/TextRead.v.  Spec: spec/SpecTextRead.v (abstract content, display, serialisers, library layers).
   html.parser tokenisation and BeautifulSoup tree building are correspondence-only.
   END-TO-END theorems (wave 5, at the end of this file): for SRT, MicroDVD and WebVTT (all but the references the reader leaves literal) the statement itself - the harness
   oracle ok_lines_a between spec display and the reader MODEL applied to the spec serialisation - is proved on a stated
   domain; DFXP: wave 7 string-level theorem C04_dfxp_str_end_to_end_partial (text and <br/> with LF wraps, one spelling per character,
   no spans - hence _partial; the reference decoding in it is the SPEC parser undoing xml_escape, the reader model contributes the wrap
   join and <br/>); DFXP with inline elements and SAMI stay at component level (tree walk, text-node matcher, SAMI stage 1) + oracle on
   the real readers.  C04_vtt_end_to_end_partial: _partial because numeric / HTML named references (left literal by the reader) are excluded. *)
From Coq Require Import List ZArith Bool.
From PV Require Import lib.Sx lib.Str lib.Result model.TextNodes model.TextRead.
From PV Require Import spec.SpecTextXml spec.SpecTextLines spec.SpecTextRead spec.SpecTextDfxpStr proofs.TextReadStrFacts.
From PV Require Import proofs.TextXmlFacts proofs.TextReadVttFacts proofs.TextReadVttTagFacts proofs.TextReadFacts.
From PV Require Import proofs.TextReadVttDocFacts model.GenText proofs.TextReadEndFacts proofs.TextReadEndVttFacts proofs.TextReadEndVttStripFacts proofs.TextReadEndVttDocFacts proofs.TextReadEndXmlFacts.
Import ListNotations.
Open Scope Z_scope.

(* ---- WebVTT: every reference is decoded exactly once (all well-formed cue texts) ---- *)
Theorem C04_vtt_entities_once : forall ps, forallb piece_ok ps = true ->
  vtt_entities (TextReadVttFacts.render ps) = TextReadVttFacts.render (map decode_piece ps).
Proof. exact vtt_entities_once. Qed.
Print Assumptions C04_vtt_entities_once.

(* ---- WebVTT tags: known tags (by name) vanish, every other tag stays literal ---- *)
Theorem C04_vtt_tags_by_name : forall gs, forallb seg_ok gs = true ->
  other_sub true (TextReadVttTagFacts.render gs) = TextReadVttTagFacts.display gs.
Proof. exact vtt_tags_by_name. Qed.
Print Assumptions C04_vtt_tags_by_name.

Theorem C04_vtt_unknown_tag_refuted : exists gs, forallb seg_ok gs = true /\
  other_sub false (TextReadVttTagFacts.render gs) <> TextReadVttTagFacts.display gs.
Proof. exact vtt_unknown_tag_refuted. Qed.
Print Assumptions C04_vtt_unknown_tag_refuted.

(* <v.classes Name> becomes "Name: " *)
Theorem C04_vtt_voice_tag : forall cls name R f, forallb class_ok cls = true ->
  forallb (fun c => negb (c =? 62)) name = true ->
  voice_sub_aux (S f) (lit "<v" ++ concat (map (fun c => 46 :: c) cls) ++ lit " " ++ name ++ lit ">" ++ R)
  = name ++ lit ": " ++ voice_sub_aux f R.
Proof. exact vtt_voice_tag. Qed.
Print Assumptions C04_vtt_voice_tag.

(* ---- WebVTT documents: the line loop of _parse returns exactly the cues; cue identifiers, NOTE / STYLE / REGION
        blocks and header lines never reach a caption, before or after cues, whatever the number of blank lines ---- *)
Theorem C04_vtt_document_cues : forall fixed header bs,
  forallb line_plain header = true -> wf_blocks bs = true ->
  vtt_parse fixed (vtt_document_lines header bs) =
  map (fun items => vtt_cue_nodes fixed (payload_lines items)) (cues_of bs).
Proof. exact vtt_document_cues. Qed.
Print Assumptions C04_vtt_document_cues.

(* ---- SAMI: whatever the spelling, the two parses decode exactly once ---- *)
Theorem C04_sami_entities_once : forall evs cs, evs_chars evs = Some cs ->
  exists out, sami_stage1 true evs = Ok out /\ content_parse_html out = Some (text_nodes cs).
Proof. exact sami_entities_once. Qed.
Print Assumptions C04_sami_entities_once.

Theorem C04_sami_double_decode_refuted :
  exists evs out, evs_chars evs = Some (lit "&lt;") /\ sami_stage1 false evs = Ok out /\
                  content_parse_html out = Some [XText (lit "<")].
Proof. exact sami_double_decode_refuted. Qed.
Print Assumptions C04_sami_double_decode_refuted.

Theorem C04_sami_upper_hex_refuted : sami_stage1 false [EvCharref (lit "X41")] = Err ValueError /\
                                     sami_stage1 true [EvCharref (lit "X41")] = Ok (lit "A").
Proof. exact sami_upper_hex_refuted. Qed.
Print Assumptions C04_sami_upper_hex_refuted.

(* the generated entity table of SAMIParser: XML characters only, and only amp/lt/gt denote & < > *)
Theorem C04_sami_entity_table : forallb (fun kv => xml_text_char (snd kv) &&
    (is_kept (fst kv) || negb ((snd kv =? 38) || (snd kv =? 60) || (snd kv =? 62)))) GenText.sami_name2codepoint = true.
Proof. exact table_ok. Qed.
Print Assumptions C04_sami_entity_table.

(* named references are looked up by their exact, case-sensitive name (Eacute is not eacute) *)
Theorem C04_sami_entity_lookup_exact : forall n v,
  assoc_str n GenText.sami_name2codepoint = Some v <-> In (n, v) GenText.sami_name2codepoint.
Proof. exact sami_entity_lookup_exact. Qed.
Print Assumptions C04_sami_entity_lookup_exact.

(* the entry SAMIParser adds itself: &apos; is the apostrophe *)
Theorem C04_sami_entity_apos :
  assoc_str (lit "apos") GenText.sami_name2codepoint = Some 39 /\ ev_chars (EvEntity (lit "apos")) = Some [39].
Proof. exact sami_entity_apos. Qed.
Print Assumptions C04_sami_entity_apos.

(* ---- DFXP / SAMI text nodes: wrapped text keeps all of its words ---- *)
Theorem C04_text_node_keeps_words : forall s t, text_node true s = Some t -> words t = words s.
Proof. exact text_node_keeps_words. Qed.
Print Assumptions C04_text_node_keeps_words.

Theorem C04_text_node_none_no_word : forall s, text_node true s = None -> words s = [].
Proof. exact text_node_none_no_word. Qed.
Print Assumptions C04_text_node_none_no_word.

Theorem C04_text_node_wrapped_refuted : exists s t, text_node false s = Some t /\ words t <> words s.
Proof. exact text_node_wrapped_refuted. Qed.
Print Assumptions C04_text_node_wrapped_refuted.

(* ---- tree walks: br -> break, style tags contribute no character, no visible character lost or added ---- *)
Theorem C04_dfxp_walk_visible : forall x, vis (node_flat (dfxp_nodes true x)) = vis (tree_flat x).
Proof. exact dfxp_walk_visible. Qed.
Print Assumptions C04_dfxp_walk_visible.

Theorem C04_sami_walk_visible : forall x, vis (node_flat (sami_nodes true x)) = vis (tree_flat x).
Proof. exact sami_walk_visible. Qed.
Print Assumptions C04_sami_walk_visible.

(* ---- MicroDVD: '|' is the line break ---- *)
Theorem C04_mdvd_pipes : forall txt, filter SpecTextLines.nonempty (split_ch 124 txt) <> [] ->
  node_lines (mdvd_text_nodes txt) = filter SpecTextLines.nonempty (split_ch 124 txt).
Proof. exact mdvd_pipes. Qed.
Print Assumptions C04_mdvd_pipes.

(* ---- non-vacuity ---- *)
Example C04_example_vtt :
  vtt_decode true (lit "<v.loud Bob>a &amp;lt; <i>b</i> <bar>c</bar> <00:01.000>&lt;d&gt;")
  = lit "Bob: a &lt; b <bar>c</bar> <d>".
Proof. vm_compute. reflexivity. Qed.

Example C04_example_pieces :
  forallb piece_ok [PEnt (lit "amp"); PRaw 108; PRaw 116; PRaw 59; PEnt (lit "bogus"); PEnt (lit "nbsp")] = true /\
  TextReadVttFacts.render (map decode_piece [PEnt (lit "amp"); PRaw 108; PRaw 116; PRaw 59; PEnt (lit "bogus"); PEnt (lit "nbsp")])
  = lit "&lt;&bogus;" ++ [160].
Proof. split; vm_compute; reflexivity. Qed.

Example C04_example_segments :
  forallb seg_ok [SKnown (lit "c.yellow"); SText (lit "x > y"); SKnown (lit "/c"); SUnknown (lit "i2"); SKnown (lit "lang en")] = true.
Proof. vm_compute. reflexivity. Qed.

Example C04_example_sami :
  evs_chars [EvEntity (lit "amp"); EvData (lit "lt;"); EvCharref (lit "60"); EvCharref (lit "X41"); EvEntity (lit "eacute")]
  = Some (lit "&lt;<A" ++ [233]).
Proof. vm_compute. reflexivity. Qed.

Example C04_example_read_dfxp :
  read_dfxp true [IWrap 4; ITxt [(97, 0); (38, 1); (60, 2)]; IWrap 6; ITxt [(98, 3)]; IBr; IOpen 0; ITxt [(99, 0)]; IClose 0]
  = Some [NText (lit "a&< b"); NBreak; NStyle true (mkStyle true false false None); NText (lit "c");
          NStyle false (mkStyle true false false None)].
Proof. vm_compute. reflexivity. Qed.

Example C04_example_read_sami :
  option_map node_lines
    (read_sami true [ITxt [(38, 1); (108, 0); (116, 0); (59, 0)]; IBr; IOpen 0; ITxt [(60, 2); (98, 0); (62, 4)]; IClose 0])
  = Some [lit "&lt;"; lit "<b>"].
Proof. vm_compute. reflexivity. Qed.

Example C04_example_entity_case :
  ev_chars (EvEntity (lit "Eacute")) = Some [201] /\ ev_chars (EvEntity (lit "eacute")) = Some [233] /\
  ev_chars (EvEntity (lit "Prime")) = Some [8243] /\ ev_chars (EvEntity (lit "prime")) = Some [8242].
Proof. exact sami_entity_case. Qed.

Example C04_example_vtt_document :
  let doc := vtt_document_lines [lit "WEBVTT"]
               [(BOther [lit "NOTE"; lit "a comment"], 1%nat);
                (BCue (Some (lit "cue-1")) (lit "00:01.000 --> 00:02.000") [ITxt [(97, 0)]; IBr; ITxt [(98, 0)]], 2%nat);
                (BOther [lit "NOTE between"], 1%nat);
                (BCue (Some (lit "3")) (lit "00:03.000 --> 00:04.000") [ITxt [(99, 0)]], 0%nat)] in
  vtt_parse true doc = [[NText (lit "a"); NBreak; NText (lit "b")]; [NText (lit "c")]].
Proof. vm_compute. reflexivity. Qed.

(* ---- the tie of the hand-written matchers (voice_sub, other_sub) to the code: the two regular expressions they were
   written against, as generated from the working tree into model/GenText.v.  Any edit of VOICE_SPAN_PATTERN /
   OTHER_SPAN_PATTERN makes these two Examples fail to compile, i.e. breaks the proof tie, whatever the streams find. ---- *)
Example C04_voice_pattern_pinned : GenText.vtt_voice_pattern = lit "<v(\.\w+)* ([^>]*)>".
Proof. vm_compute. reflexivity. Qed.
Example C04_other_pattern_pinned :
  GenText.vtt_other_pattern = lit "</?([cibuv]|ruby|rt|lang|(\d+):(\d{2})(:\d{2})?\.(\d{3}))([ \t.][^>]*)?>".
Proof. vm_compute. reflexivity. Qed.

(* ==== END TO END on the models: the property statement, with the harness oracle as conclusion ============================== *)
(* SRT: every item list without a line feed inside text and without the WebVTT-only items (voice, unknown tag) *)
Theorem C04_srt_end_to_end : forall items, forallb (plain_ok 10) items = true ->
  ok_lines_a (SpecTextRead.display items) (node_lines (read_srt items)) = true.
Proof. exact srt_end_to_end. Qed.
Print Assumptions C04_srt_end_to_end.

(* MicroDVD: the same with '|' as the character text cannot contain *)
Theorem C04_mdvd_end_to_end : forall items, forallb (plain_ok 124) items = true ->
  ok_lines_a (SpecTextRead.display items) (node_lines (read_mdvd items)) = true.
Proof. exact mdvd_end_to_end. Qed.
Print Assumptions C04_mdvd_end_to_end.

(* WebVTT (wave 6: no hypothesis about the ends of the lines, timestamp tags included).
   Domain vtt_item_ok = everything the spec serialiser can emit EXCEPT the character references the reader leaves literal
   (numeric and HTML named spellings 2-5: known finding C04-vtt-character-reference-left-literal - on those the statement is
   false of the code), i.e.:
     - characters spelled raw or with WebVTT's own named references (&amp; &lt; &gt; &nbsp; &lrm; &rlm;), no line feed inside
       text ('&' and '<' are always escaped by the serialiser); white space anywhere, also at the ends of the source lines;
     - every known tag i b u c ruby rt lang v, open and close, in all six start-tag shapes (0 <= k < 60, k mod 10 <= 7);
     - timestamp tags H+:MM[:SS].mmm; voice tags with classes and any name without a raw '>';
     - unknown tags (names of letters, digits, _ and -, beginning with a letter) stay literal; comments / PIs.
   The reader strips every line before decoding; strip_line shows this commutes with the three substitutions up to the
   white space at the ends, which the comparison ignores. *)
Theorem C04_vtt_end_to_end_partial : forall items, forallb vtt_item_ok items = true ->
  ok_lines_a (SpecTextRead.display items) (node_lines (read_vtt true items)) = true.
Proof. exact vtt_end_to_end_any. Qed.
Print Assumptions C04_vtt_end_to_end_partial.

(* when no source line begins or ends with white space the reader model's lines ARE the displayed lines *)
Theorem C04_vtt_end_to_end_exact : forall items, forallb vtt_item_ok items = true -> lines_trimmed items = true ->
  node_lines (read_vtt true items) = SpecTextRead.display items.
Proof. exact vtt_end_to_end_exact. Qed.
Print Assumptions C04_vtt_end_to_end_exact.

(* the whole DOCUMENT (header lines, cue identifiers, NOTE / STYLE / REGION blocks, any number of blank lines): the line loop
   of the reader model returns one caption per cue, in order, and every caption shows what its cue displays *)
Theorem C04_vtt_document_end_to_end : forall header bs,
  forallb line_plain header = true -> wf_blocks bs = true ->
  Forall (fun items => forallb vtt_item_ok items = true) (cues_of bs) ->
  vtt_parse true (vtt_document_lines header bs) = map (read_vtt true) (cues_of bs) /\
  Forall (fun items => ok_lines_a (SpecTextRead.display items) (node_lines (read_vtt true items)) = true) (cues_of bs).
Proof. exact vtt_document_end_to_end. Qed.
Print Assumptions C04_vtt_document_end_to_end.

(* the reader's strip on a tokenised line: a token list again, the decoded text differs by white space at the ends only *)
Theorem C04_vtt_strip_line : forall l, forallb ltok_ok l = true -> exists l2 ws1 ws2,
  forallb is_space ws1 = true /\ forallb is_space ws2 = true /\ forallb ltok_ok l2 = true /\
  strip (lrender_all l) = lrender_all l2 /\ D l = ws1 ++ D l2 ++ ws2.
Proof. exact strip_line. Qed.
Print Assumptions C04_vtt_strip_line.

(* one source line through strip-free decoding: voice substitution, tag substitution and the replace chain composed *)
Theorem C04_vtt_line_decode : forall l, forallb ltok_ok l = true ->
  vtt_entities (other_sub true (voice_sub (lrender_all l))) = TextReadVttFacts.render (map decode_piece (flat_map lpieces l)).
Proof. exact line_decode. Qed.
Print Assumptions C04_vtt_line_decode.

Example C04_example_vtt_domain : forallb vtt_item_ok vtt_example = true /\ lines_trimmed vtt_example = true.
Proof. exact vtt_example_ok. Qed.
Example C04_example_vtt_shows :
  serialise F_VTT vtt_example = lit "<v.loud Bob>R&amp;D &lt;<c.a.b-c some words>x</c>" ++ [10] ++ lit "<bar>&amp;lt;</bar>" /\
  node_lines (read_vtt true vtt_example) = [lit "Bob: R&D <x"; lit "<bar>&lt;</bar>"].
Proof. exact vtt_example_shows. Qed.
Example C04_example_plain_domain :
  forallb (plain_ok 10) [ITxt [(97, 0); (38, 1)]; IOpen 0; IWrap 3; IEnt (lit "eacute") 233; IClose 0; IBr; ITxt [(60, 2)]] = true.
Proof. exact plain_ok_example. Qed.

(* DFXP at tree level.  FULL statement (not proved): ok_lines_a (display items) (node_lines ns) for read_dfxp true items = Some ns.
   PROVED PART, for ALL item lists: with the tree-building library as the stated boundary (read_dfxp starts from the spec tree
   tree_of, which the harness compares with BeautifulSoup's), the nodes the reader model returns show every non-white-space
   character of the cue and every line break, in order (item_flat = displayed text with a mark per break; vis filters white
   space).  Entities, comments, PIs, spans, source wraps: all covered.  Blind to white space, hence to the known finding
   "words glued at a wrap next to an inline element". *)
Theorem C04_dfxp_tree_visible_partial : forall items ns, read_dfxp true items = Some ns ->
  vis (node_flat ns) = vis (item_flat items).
Proof. exact dfxp_tree_visible. Qed.
Print Assumptions C04_dfxp_tree_visible_partial.

Example C04_example_dfxp_tree :
  read_dfxp true [ITxt [(97, 0); (38, 1)]; IWrap 3; IOpen 0; ITxt [(98, 2)]; IClose 0; IBr; ICom (lit " c "); IEnt (lit "x") 99]
  = Some [NText (lit "a&"); NStyle true (mkStyle true false false None); NText (lit "b"); NStyle false (mkStyle true false false None);
          NBreak; NText (lit "c")].
Proof. exact dfxp_tree_example. Qed.

Example C04_example_vtt_untrimmed :
  let items := [ITxt [(32, 0); (160, 0); (97, 0); (32, 0)]; IOpen 1; ITxt [(32, 0)]; IBr; IWrap 0; ITxt [(160, 1); (98, 0)]; IClose 1; ITxt [(9, 0)]] in
  forallb vtt_item_ok items = true /\ lines_trimmed items = false /\
  node_lines (read_vtt true items) = [[97; 32]; [160; 98]] /\ SpecTextRead.display items = [[32; 160; 97; 32; 32]; [32; 160; 98; 9]].
Proof. exact vtt_any_example. Qed.
Example C04_example_vtt_timestamp :
  forallb vtt_item_ok [ITxt [(97, 0)]; IStamp (lit "00:01.000"); IStamp (lit "100:59:59.999"); ITxt [(98, 0)]] = true /\
  node_lines (read_vtt true [ITxt [(97, 0)]; IStamp (lit "00:01.000"); IStamp (lit "100:59:59.999"); ITxt [(98, 0)]]) = [lit "ab"].
Proof. split; vm_compute; reflexivity. Qed.

(* ---- wave 7 (round 2): DFXP END TO END ON STRINGS (spec/SpecTextDfxpStr.v) ----
   The text-node matcher on a wrapped source line, EXACT: a first piece that does not begin with white space and has no
   line end, then any number of (LF, indentation, piece) continuations - the node text is the pieces joined by ONE blank.
   Nothing is dropped, nothing is glued, interior and trailing blanks of every piece are kept. *)
Theorem C04_dfxp_text_node_wrapped : forall c w tail, is_space c = false -> forallb nonl (c :: w) = true -> wtail_ok tail ->
  text_node true ((c :: w) ++ rof tail) = Some ((c :: w) ++ concat (map (fun e => 32 :: snd e) tail)).
Proof. exact text_node_wrapped. Qed.
Print Assumptions C04_dfxp_text_node_wrapped.

(* The statement on strings: for EVERY non-empty list of lines of the domain (line_ok: every character of XML Char except
   CR - & < > quotes ]]> and entity-looking text included -, words that do not begin with white space, any wrap
   indentation, empty lines) the string render_p writes (characters escaped once, lines separated by <br/>), read by the
   strict XML content parser and the DFXP reader model, gives EXACTLY the lines a conformant consumer shows:
   references decoded once (by the SPEC parser undoing xml_escape = C03_xml_escape_parses_back; no pycaption reader code decodes
   anything here - in the real reader that is lxml / bs4, tied by execution), a wrap = one blank and <br/> = line break (the
   reader model's part), no word lost.  _partial: no inline spans, one spelling per character, no CR / CRLF wraps. *)
Theorem C04_dfxp_str_end_to_end_partial : forall ls, ls <> [] -> Forall (fun l => line_ok l = true) ls ->
  read_p (render_p ls) = Some (map shown_line ls).
Proof. exact dfxp_str_end_to_end. Qed.
Print Assumptions C04_dfxp_str_end_to_end_partial.

Example C04_example_dfxp_str :
  let ls := [(lit "a &lt; <b> ", [(lit "   ", lit "c ]]> &amp;"); ([9], lit "d")]); ([], []); (lit "x", [])] in
  forallb line_ok ls = true /\
  render_p ls = lit "a &amp;lt; &lt;b&gt; " ++ [10] ++ lit "   c ]]&gt; &amp;amp;" ++ [10; 9] ++ lit "d<br/><br/>x" /\
  read_p (render_p ls) = Some [lit "a &lt; <b>  c ]]> &amp; d"; []; lit "x"].
Proof. repeat split; vm_compute; reflexivity. Qed.
