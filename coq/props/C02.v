(* C02 - Writing preserves every cue's start and end instant.
   Only statements closed by `exact`, with Print Assumptions; Examples show non-vacuity.
   Times are exact rationals t (microseconds); rhe = round half even to a whole microsecond
   (what datetime.timedelta does to a float; the identity on integers). *)
From Coq Require Import List ZArith QArith Qround Bool.
From PV Require Import lib.Sx lib.Str lib.Result lib.Dec.
From PV Require Import model.Base spec.SpecBase model.TimeWrite spec.SpecTimeW proofs.TimeWriteFacts.
From PV Require model.Langs spec.SpecTimeSamiDoc proofs.TimeSamiDocFacts proofs.TimeFloatFacts.
From PV Require model.DfxpWriteDoc model.XmlRead spec.SpecXmlDocT proofs.DfxpWriteDocFacts.
From PV Require model.SamiText model.SamiWriteDoc spec.SpecSamiText model.Chain spec.SpecChain proofs.ChainFacts proofs.ChainDocFacts proofs.SamiWriteDocFacts.
Import ListNotations.
Open Scope Z_scope.

(* rounding: identity on integers; otherwise the floor or - only when the fraction is >= 1/2 - the next integer *)
Theorem C02_rhe_int : forall z, rhe (inject_Z z) = z.
Proof. exact rhe_int. Qed.
Print Assumptions C02_rhe_int.
Theorem C02_rhe_cases : forall q, rhe q = Qfloor q \/ (rhe q = Qfloor q + 1 /\ up_ok q = true).
Proof. exact rhe_cases. Qed.
Print Assumptions C02_rhe_cases.

(* the accepted value is unique on integer times: floor(t/1000) ms, floor(t*25/10^6) frames *)
Theorem C02_acc_ms_int : forall z v, acc_ms (inject_Z z) v = true <-> v = z / 1000.
Proof. exact acc_ms_int. Qed.
Print Assumptions C02_acc_ms_int.
Theorem C02_acc_frames_int : forall z v, acc_frames (inject_Z z) v = true <-> v = z * 25 / 1000000.
Proof. exact acc_frames_int. Qed.
Print Assumptions C02_acc_frames_int.

(* shared formatter (SRT ',' / DFXP '.'): format, then parse with the independent clock parser
   (2/2/2/3 digit fields, MM < 60, SS < 60): floor(rhe t / 1000) ms, for all times below 24 h *)
Theorem C02_fmt_hms_denotes : forall sep t, 0 <= rhe t < 86400000000 ->
  parse_hms sep (format_ts sep t) = Some (rhe t / 1000).
Proof. exact fmt_hms_denotes. Qed.
Print Assumptions C02_fmt_hms_denotes.
Theorem C02_fmt_hms_int : forall sep z, 0 <= z < 86400000000 ->
  parse_hms sep (format_ts sep (inject_Z z)) = Some (z / 1000).
Proof. exact fmt_hms_int. Qed.
Print Assumptions C02_fmt_hms_int.
Theorem C02_fmt_hms_ok : forall sep t, 0 <= rhe t < 86400000000 -> ok_hms sep t (format_ts sep t) = true.
Proof. exact fmt_hms_ok. Qed.
Print Assumptions C02_fmt_hms_ok.
(* the SRT slice [:12] keeps the whole stamp *)
Theorem C02_srt_slice : forall t, 0 <= rhe t < 86400000000 -> srt_ts t = format_ts 44 t.
Proof. exact srt_ts_full. Qed.
Print Assumptions C02_srt_slice.

(* WebVTT formatter; the hour field is written exactly when it is non-zero *)
Theorem C02_vtt_ts_denotes : forall t, 0 <= rhe t < 86400000000 -> parse_vtt (vtt_ts t) = Some (rhe t / 1000).
Proof. exact vtt_ts_denotes. Qed.
Print Assumptions C02_vtt_ts_denotes.
Theorem C02_vtt_ts_int : forall z, 0 <= z < 86400000000 -> parse_vtt (vtt_ts (inject_Z z)) = Some (z / 1000).
Proof. exact vtt_ts_int. Qed.
Print Assumptions C02_vtt_ts_int.
Theorem C02_vtt_ts_ok : forall t, 0 <= rhe t < 86400000000 -> ok_vtt t (vtt_ts t) = true.
Proof. exact vtt_ts_ok. Qed.
Print Assumptions C02_vtt_ts_ok.
Theorem C02_vtt_hours_iff_nonzero : forall t, 0 <= rhe t < 86400000000 ->
  length (vtt_ts t) = if rhe t <? 3600000000 then 9%nat else 12%nat.
Proof. exact vtt_ts_hours_iff. Qed.
Print Assumptions C02_vtt_hours_iff_nonzero.

(* MicroDVD: the token is a decimal integer literal for floor(t*25/10^6); frame n covers [40000 n, 40000 (n+1)).
   _partial: the model computes the floor exactly; the writer's binary64 int(t*25.0/10**6) is not modelled (decided
   by execution: every integer time of the generators, thorough sweep) - the theorem is about printing and parsing *)
Theorem C02_mdvd_frames_floor_partial : forall t, (0 <= t)%Q -> ok_frames t (mdvd_token t) = true.
Proof. exact mdvd_token_ok. Qed.
Print Assumptions C02_mdvd_frames_floor_partial.
Theorem C02_mdvd_frames_int : forall z, 0 <= z ->
  parse_int (mdvd_token (inject_Z z)) = Some (z * 25 / 1000000) /\
  (z * 25 / 1000000) * 40000 <= z < (z * 25 / 1000000 + 1) * 40000.
Proof. exact mdvd_frame_int. Qed.
Print Assumptions C02_mdvd_frames_int.

(* SAMI: start= is a decimal integer literal for floor(t/1000). _partial: the Python type of `t // 1000` (float for a
   float t, the repaired defect) is invisible in Q; the theorem is about printing and parsing *)
Theorem C02_sami_start_integer_partial : forall t, (0 <= t)%Q ->
  match parse_int (sami_token (sami_ms t)) with Some v => v = floor_ms t | None => False end.
Proof. exact sami_token_ok. Qed.
Print Assumptions C02_sami_start_integer_partial.

(* SAMI sync rule, for ALL caption lists: a sync at each start ms; a blank sync at the end ms unless the next
   cue starts at that ms; nothing after the last cue; and the written syncs satisfy the oracle *)
Theorem C02_sami_sync_rule : forall caps, map sev_obs (sami_write caps) = sami_rule caps.
Proof. exact sami_sync_rule. Qed.
Print Assumptions C02_sami_sync_rule.
Theorem C02_sami_write_ok : forall caps, ok_sami_ms caps (map sev_obs (sami_write caps)) = true.
Proof. exact sami_write_ok. Qed.
Print Assumptions C02_sami_write_ok.

(* SRT: one cue per maximal run of consecutive captions with equal (start, end) - the runs of C19
   (partition, equal spans inside, distinct neighbours: the C19_runs theorems) - carrying the run's span *)
Theorem C02_srt_cues_are_runs : forall caps,
  map span (srt_merge caps) = map (fun r => span (run_last r)) (runs caps).
Proof. exact srt_cues_are_runs. Qed.
Print Assumptions C02_srt_cues_are_runs.
Theorem C02_run_last_same_span : forall caps r, In r (runs caps) -> span_eqb (run_last r) (fst r) = true.
Proof. exact run_last_span. Qed.
Print Assumptions C02_run_last_same_span.
(* legacy / single-position DFXP: merge_concurrent_captions first *)
Theorem C02_merged_cues_are_runs : forall caps, nodes_nonempty caps = true ->
  exists l, merge_lang caps = Ok l /\ map span l = map (fun r => span (fst r)) (runs caps).
Proof. exact merged_cues_are_runs. Qed.
Print Assumptions C02_merged_cues_are_runs.

(* ---- THE WRITER MODELS MEET THE DOCUMENT ORACLE (cue structure + tokens), for every caption list in the domain ----
   SRT: merge loop then [:12] stamps; accepted by "may merge" (ok_cues WSrt) *)
Theorem C02_srt_model_meets_oracle : forall caps, caps_time_ok caps = true ->
  ok_cues WSrt caps (map (fun c => (srt_ts (c_start c), srt_ts (c_end c))) (srt_merge caps)) = true.
Proof. exact srt_model_meets_oracle. Qed.
Print Assumptions C02_srt_model_meets_oracle.
(* legacy / single-position DFXP: merge_concurrent_captions, then one <p> per merged caption *)
Theorem C02_merged_model_meets_oracle : forall caps, caps_time_ok caps = true -> nodes_nonempty caps = true ->
  exists l, merge_lang caps = Ok l /\ ok_cues WMerged caps (map (hms_tok 46) l) = true.
Proof. exact merged_model_meets_oracle. Qed.
Print Assumptions C02_merged_model_meets_oracle.
(* DFXP one <p> per caption; MicroDVD one line per caption *)
Theorem C02_dfxp_model_meets_oracle : forall caps, caps_time_ok caps = true -> ok_cues WDfxp caps (dfxp_tokens caps) = true.
Proof. exact dfxp_model_meets_oracle. Qed.
Print Assumptions C02_dfxp_model_meets_oracle.
Theorem C02_mdvd_model_meets_oracle : forall caps, caps_time_ok caps = true -> ok_cues WMdvd caps (mdvd_tokens caps) = true.
Proof. exact mdvd_model_meets_oracle. Qed.
Print Assumptions C02_mdvd_model_meets_oracle.
(* WebVTT: one cue per layout group of the grouping loop, all with the caption's times; accepted by "may split" *)
Theorem C02_vtt_model_meets_oracle : forall caps : list (caption * list vnode), caps_time_ok (map fst caps) = true ->
  forallb (fun cn => shows_something (snd cn)) caps = true ->
  ok_cues WVtt (map fst caps) (vtt_tokens caps) = true.
Proof. exact vtt_model_meets_oracle. Qed.
Print Assumptions C02_vtt_model_meets_oracle.
(* a description of the MODEL's grouping loop (not demanded by the statement, which says "may split"):
   1 + the number of layout changes between text nodes *)
Theorem C02_vtt_group_count : forall nodes, vtt_group_count nodes = spec_groups nodes.
Proof. exact vtt_group_count_spec. Qed.
Print Assumptions C02_vtt_group_count.
(* the accepted values of a time do not depend on the representation of the rational (2000000 and 2000000.0) *)
Theorem C02_acc_ms_respects_equality : forall t t' v, (t == t')%Q -> acc_ms t v = acc_ms t' v.
Proof. exact acc_ms_comp. Qed.
Print Assumptions C02_acc_ms_respects_equality.

(* on the SCC lattice (thirds of a microsecond) both admissible readings of "truncated" coincide *)
Theorem C02_lattice_no_ms_crossing : forall k c, c = 100100 \/ c = 100000 ->
  rhe ((k * c) # 3) / 1000 = floor_ms ((k * c) # 3).
Proof. exact lattice_no_ms_crossing. Qed.
Print Assumptions C02_lattice_no_ms_crossing.

(* ---- the two repaired SAMI defects, on record (pre-fix variants of the model) ------------------- *)
Theorem C02_sami_float_start_refuted : exists t, (0 <= t)%Q /\ parse_int (sami_token_unfixed t) = None.
Proof. exact sami_float_start_refuted. Qed.
Print Assumptions C02_sami_float_start_refuted.
Theorem C02_sami_blank_after_ms0_refuted :
  exists caps, ok_sami_ms caps (map sev_obs (sami_events_unfixed caps None 0)) = false.
Proof. exact sami_blank_after_ms0_refuted. Qed.
Print Assumptions C02_sami_blank_after_ms0_refuted.

(* ---- non-vacuity ------------------------------------------------------------------------------ *)
Example C02_ex_fmt : format_ts 44 (inject_Z 86399999999) = lit "23:59:59,999" /\ format_ts 46 (inject_Z 3600000000) = lit "01:00:00.000".
Proof. vm_compute. split; reflexivity. Qed.
Example C02_ex_fmt_float : format_ts 46 (5004999999999999 # 1000000000) = lit "00:00:05.005" /\ rhe (5004999999999999 # 1000000000) = 5005000.
Proof. vm_compute. split; reflexivity. Qed.
Example C02_ex_vtt : vtt_ts (inject_Z 59999999) = lit "00:59.999" /\ vtt_ts (inject_Z 3600000000) = lit "01:00:00.000".
Proof. vm_compute. split; reflexivity. Qed.
Example C02_ex_mdvd : mdvd_token (inject_Z 8039999) = lit "200" /\ mdvd_token (inject_Z 8040000) = lit "201".
Proof. vm_compute. split; reflexivity. Qed.
Example C02_ex_sami :
  sami_write [(inject_Z 0, inject_Z 900); (inject_Z 5000000, inject_Z 6000000); (inject_Z 6000500, inject_Z 7000000)]
  = [SCue 0 0; SBlank 0; SCue 5000 1; SCue 6000 2].
Proof. vm_compute. reflexivity. Qed.
Example C02_ex_srt_runs :
  let c s e n := mkCap (inject_Z s) (inject_Z e) [n] in
  map span (srt_merge [c 0 1 1; c 2 3 2; c 2 3 3; c 2 4 4]) = [span (c 0 1 1); span (c 2 3 3); span (c 2 4 4)].
Proof. vm_compute. reflexivity. Qed.
Example C02_ex_vtt_groups :
  vtt_group_count [VText (Some 1); VBreak; VText (Some 1); VBreak; VText (Some 2); VText None; VText (Some 3)] = 3%nat
  /\ vtt_group_count [VBreak; VText None; VStyle true; VText (Some 1)] = 1%nat.
Proof. vm_compute. split; reflexivity. Qed.
Example C02_ex_srt_oracle :
  let c s e n := mkCap (inject_Z s) (inject_Z e) [n] in
  let caps := [c 0 1000000 1; c 2000000 3000000 2; c 2000000 3000000 3; mkCap (4000000 # 2) (6000000 # 2) [4]] in
  caps_time_ok caps = true /\
  (* merged (the model), not merged, and partly merged outputs are all accepted; a wrong time is not *)
  ok_cues WSrt caps [(lit "00:00:00,000", lit "00:00:01,000"); (lit "00:00:02,000", lit "00:00:03,000")] = true /\
  ok_cues WSrt caps [(lit "00:00:00,000", lit "00:00:01,000"); (lit "00:00:02,000", lit "00:00:03,000");
                     (lit "00:00:02,000", lit "00:00:03,000"); (lit "00:00:02,000", lit "00:00:03,000")] = true /\
  ok_cues WSrt caps [(lit "00:00:00,000", lit "00:00:01,000"); (lit "00:00:02,000", lit "00:00:03,001")] = false.
Proof. vm_compute. repeat split; reflexivity. Qed.
Example C02_ex_merged_oracle :
  let c s e n := mkCap (inject_Z s) (inject_Z e) [n] in
  let caps := [c 0 1000000 1; c 0 1000000 2; c 5000000 6000000 3] in
  caps_time_ok caps = true /\ nodes_nonempty caps = true /\
  match merge_lang caps with Ok l => ok_cues WMerged caps (map (hms_tok 46) l) | Err _ => false end = true.
Proof. vm_compute. repeat split; reflexivity. Qed.
Example C02_ex_vtt_oracle :
  let c := mkCap (inject_Z 1000000) (5004999999999999 # 1000000000) [1] in
  caps_time_ok [c] = true /\
  ok_cues WVtt [c] (vtt_tokens [(c, [VText (Some 1); VBreak; VText (Some 2)])]) = true /\
  vtt_tokens [(c, [VText (Some 1); VBreak; VText (Some 2)])] = [(lit "00:01.000", lit "00:05.005"); (lit "00:01.000", lit "00:05.005")] /\
  ok_cues WVtt [c] [(lit "00:01.000", lit "00:05.004")] = true /\ ok_cues WVtt [c] [] = false.
Proof. vm_compute. repeat split; reflexivity. Qed.
Example C02_ex_dfxp_mdvd_oracle :
  let caps := [mkCap (inject_Z 8039999) (inject_Z 8040000) [1]; mkCap (1 # 3) (999999 # 2) [2]] in
  caps_time_ok caps = true /\ dfxp_tokens caps = [(lit "00:00:08.039", lit "00:00:08.040"); (lit "00:00:00.000", lit "00:00:00.500")]
  /\ mdvd_tokens caps = [(lit "200", lit "201"); (lit "0", lit "12")].
Proof. vm_compute. repeat split; reflexivity. Qed.
Example C02_ex_lattice : rhe ((7 * 100100) # 3) / 1000 = floor_ms ((7 * 100100) # 3) /\ rhe ((7 * 100100) # 3) = 233567.
Proof. vm_compute. split; reflexivity. Qed.

(* ---- wave 5: the SAMI DOCUMENT with several languages (placement of the syncs of further languages) ------------
   Langs.sami_write is the model of SAMIWriter's body construction over ALL languages of a set (_recreate_sync,
   _find_closest_sync); doc_obs l body = the paragraphs of language l in document order as (sync start ms, is blank). *)
Section SamiDocument.
Import Langs SpecTimeSamiDoc TimeSamiDocFacts.

(* the first language obeys the statement's sync rule whatever its shape (overlapping, nested, unsorted, repeated
   cues) and whatever languages follow *)
Theorem C02_sami_first_language_rule : forall l0 caps0 rest, ~ In l0 (map fst rest) -> texts_ok caps0 ->
  doc_obs l0 (Langs.sami_write ((l0, caps0) :: rest)) = sami_rule (wspans caps0).
Proof. exact sami_first_language_rule. Qed.
Print Assumptions C02_sami_first_language_rule.

(* every language of a set of timelines (sorted, non-overlapping per language; touching and zero-length cues allowed),
   for ANY number of languages: the syncs of a further language, inserted by time, stand in the rule's order *)
Theorem C02_sami_every_language_rule : forall cs, NoDup (map fst cs) ->
  (forall l caps, In (l, caps) cs -> timeline_us 0 caps /\ texts_ok caps) ->
  forall l caps, In (l, caps) cs -> doc_obs l (Langs.sami_write cs) = sami_rule (wspans caps).
Proof. exact sami_every_language_rule. Qed.
Print Assumptions C02_sami_every_language_rule.

(* model meets oracle at document level, every language *)
Theorem C02_sami_document_meets_oracle : forall cs, NoDup (map fst cs) ->
  (forall l caps, In (l, caps) cs -> timeline_us 0 caps /\ texts_ok caps) ->
  forall l caps, In (l, caps) cs -> ok_sami_ms (wspans caps) (doc_obs l (Langs.sami_write cs)) = true.
Proof. exact sami_document_meets_oracle. Qed.
Print Assumptions C02_sami_document_meets_oracle.

Theorem C02_sami_first_language_meets_oracle : forall l0 caps0 rest, ~ In l0 (map fst rest) -> texts_ok caps0 ->
  ok_sami_ms (wspans caps0) (doc_obs l0 (Langs.sami_write ((l0, caps0) :: rest))) = true.
Proof. exact sami_first_language_meets_oracle. Qed.
Print Assumptions C02_sami_first_language_meets_oracle.

(* known finding C02-sami-later-language-sync-order at model level: a further language that is no timeline
   ([(0,1s),(0,1s),(3s,4s)]) is written with exactly the rule's syncs in another document order; the oracle refuses;
   the same language written FIRST obeys the rule *)
Theorem C02_sami_later_language_order_refuted :
  let cs := [(lit "en", ex_en); (lit "fr", ex_fr)] in
  sami_rule (wspans ex_fr) = [(0, false); (1000, true); (0, false); (1000, true); (3000, false)]
  /\ doc_obs (lit "fr") (Langs.sami_write cs) = [(0, false); (0, false); (1000, true); (1000, true); (3000, false)]
  /\ ok_sami_ms (wspans ex_fr) (doc_obs (lit "fr") (Langs.sami_write cs)) = false
  /\ doc_obs (lit "fr") (Langs.sami_write [(lit "fr", ex_fr); (lit "en", ex_en)]) = sami_rule (wspans ex_fr).
Proof. exact sami_later_language_order_refuted. Qed.
Print Assumptions C02_sami_later_language_order_refuted.

(* non-vacuity: three timelines sharing starts and ends, a title cue of a later language before the first sync *)
Example C02_ex_sami_three_languages :
  let en := [mkWcue 1000000 2000000 (lit "a"); mkWcue 2000000 2000000 (lit "z"); mkWcue 5000500 6000000 (lit "b")] in
  let fr := [mkWcue 0 1000000 (lit "t"); mkWcue 1000000 2500000 (lit "c"); mkWcue 5000000 6000999 (lit "d")] in
  let de := [mkWcue 2500000 5000000 (lit "e")] in
  let cs := [(lit "en", en); (lit "fr", fr); (lit "de", de)] in
  map fst (Langs.sami_write cs) = [0; 1000; 2000; 2000; 2500; 5000] /\
  doc_obs (lit "fr") (Langs.sami_write cs) = [(0, false); (1000, false); (2500, true); (5000, false)] /\
  doc_obs (lit "fr") (Langs.sami_write cs) = sami_rule (wspans fr) /\
  doc_obs (lit "en") (Langs.sami_write cs) = [(1000, false); (2000, false); (2000, true); (5000, false)].
Proof. vm_compute. repeat split; reflexivity. Qed.
End SamiDocument.

(* ---- wave 5: the binary64 computation int(micro * 25.0 / 10**6) of the real MicroDVD writer ----------------------
   For integer microseconds below 24 h it equals the exact floor that model and spec use.  Interval argument, the
   rounding function abstract: micro*25 < 2^53 is exact; the one rounded operation (the division) returns an integer
   quotient unchanged and is otherwise off by at most 2^-31 below 2^22 (binary64: 2^-32), while a non-integer quotient
   is at least 10^-6 away from the neighbouring integers.  (floor_frames (inject_Z t) = t * 25 / 1000000:
   C02_mdvd_frames_int.) *)
Theorem C02_mdvd_frames_binary64 : forall (rnd : Q -> Q) (t : Z),
  TimeFloatFacts.rounds_like_binary64_below_2p22 rnd -> (0 <= t < 86400000000)%Z ->
  Qfloor (rnd ((t * 25) # 1000000)) = (t * 25 / 1000000)%Z.
Proof. exact TimeFloatFacts.mdvd_frames_binary64. Qed.
Print Assumptions C02_mdvd_frames_binary64.
Example C02_ex_rounding_premise : TimeFloatFacts.rounds_like_binary64_below_2p22 (fun y => y).
Proof. exact TimeFloatFacts.rounds_like_id. Qed.

(* ---- wave 7: the DFXP DOCUMENT at string level (C02 o C01 on whole documents) -------------------------------------
   DfxpWriteDoc.dfxp_write_doc lang cs = the writer MODEL's document for one language of captions given as text lines; it IS
   the text DFXPWriter prints when the lines are clean (non-empty, no blank at either end) and the language name holds no
   double quote (request 207: a difference there is a correspondence disagreement); outside that domain the theorems below
   speak about the model document only (audit 7).  XmlRead.dfxp_read_string = the
   string-level model of DFXPReader (C01_dfxp_string_exact).  floor_cue c = (start, end) floored to the millisecond. *)
Module DfxpDocument.
Import model.DfxpWriteDoc model.XmlRead spec.SpecXmlDocT proofs.DfxpWriteDocFacts.
Open Scope Z_scope.

(* the written document is a well-formed rendering of an abstract document (hence parses: C01_dfxp_text_to_tree) *)
Theorem C02_dfxp_document_wellformed_unfold : forall lang cs, forallb wcap_ok cs = true -> xdoc_ok (wdoc lang cs) = true.
Proof. exact wdoc_ok. Qed.
Print Assumptions C02_dfxp_document_wellformed_unfold.

(* its begin / end attributes are the tokens of the C02 writer model (the shared formatter), followed by region / style *)
Theorem C02_dfxp_document_tokens : forall c : wcap, 0 <= fst (fst c) < day -> 0 <= snd (fst c) < day ->
  pattrs_list (wp_attrs c)
  = [mkRa f1 (lit "begin") (dfxp_ts (inject_Z (fst (fst c)))); mkRa f1 (lit "end") (dfxp_ts (inject_Z (snd (fst c))));
     at1 (lit "region") (lit "bottom"); at1 (lit "style") (lit "default")].
Proof. exact dfxp_document_tokens. Qed.
Print Assumptions C02_dfxp_document_tokens.

(* for EVERY list of captions (any number, any order, overlapping, equal spans) with integer times below 24 h and visible
   text, in any language name: reading the written text back yields exactly one caption per caption, in order, under
   that language, with start and end truncated to the millisecond *)
Theorem C02_dfxp_document_string : forall default lang cs, cs <> [] -> forallb wcap_ok cs = true ->
  dfxp_read_string default (dfxp_write_doc lang cs) = Ok [(lang, map floor_cue cs)].
Proof. exact dfxp_document_string. Qed.
Print Assumptions C02_dfxp_document_string.

Example C02_ex_dfxp_document :
  let cs := [(1000999, 2500000, [lit "hello"; lit "a & <b>"]); (3600000000, 3600040999, [lit "42"])] in
  forallb wcap_ok cs = true /\
  dfxp_write_doc (lit "en-US") cs = lit "<?xml version=""1.0"" encoding=""utf-8""?>
<tt xml:lang=""en"" xmlns=""http://www.w3.org/ns/ttml"" xmlns:tts=""http://www.w3.org/ns/ttml#styling"">
 <head>
  <styling>
   <style tts:color=""white"" tts:fontFamily=""monospace"" tts:fontSize=""1c"" xml:id=""default""/>
  </styling>
  <layout>
   <region tts:displayAlign=""after"" tts:textAlign=""start"" xml:id=""bottom""/>
  </layout>
 </head>
 <body>
  <div region=""bottom"" xml:lang=""en-US"">
   <p begin=""00:00:01.000"" end=""00:00:02.500"" region=""bottom"" style=""default"">
    hello<br/>
    a &amp; &lt;b&gt;
   </p>
   <p begin=""01:00:00.000"" end=""01:00:00.040"" region=""bottom"" style=""default"">
    42
   </p>
  </div>
 </body>
</tt>
" /\
  dfxp_read_string (lit "und") (dfxp_write_doc (lit "en-US") cs)
  = Ok [(lit "en-US", [(1000000, 2500000); (3600000000, 3600040000)])].
Proof. vm_compute. repeat split; reflexivity. Qed.
End DfxpDocument.

(* ---- round 4: the SAMI DOCUMENT at string level (C02 o C01 on whole documents) -------------------------------------
   SamiWriteDoc.sami_write_doc lang cs = head ++ sami_body_text lang cs = the text SAMIWriter prints for one language of
   captions given as text lines: one <sync start=ms> per event of the sync rule (TimeWrite.sami_write, C02_sami_sync_rule),
   compared with the real writer character by character on every run (request 208).  SamiText.sami_read_string = the
   string-level model of SAMIReader from <body> on (C01_sami_string_exact), given the stylesheet's class -> lang table. *)
Module SamiDocumentText.
Import model.SamiText model.SamiWriteDoc model.Chain spec.SpecChain proofs.ChainFacts proofs.ChainDocFacts proofs.SamiWriteDocFacts.
Open Scope Z_scope.

(* for EVERY timeline (sorted, non-overlapping cues, each at least 1 ms long, below 24 h - 4 s) with visible text, in any
   language name: reading the written text back yields one caption per caption, in order, under that language, every start
   and every non-final end truncated to the millisecond, the final cue lasting four seconds (its end is not written) *)
Theorem C02_sami_document_string : forall default lang cs lo, cs <> [] -> 0 <= lo ->
  dom_u 1000 lo (times_of_caps cs) -> lines_visible cs = true ->
  sami_read_string default (sstyles lang) (sami_body_text lang cs)
  = Ok [(lang, set_last_end (map (pi_pt 1000) (times_of_caps cs)))].
Proof. exact sami_document_string. Qed.
Print Assumptions C02_sami_document_string.

Example C02_ex_sami_document :
  let cs := [(1000999, 2500000, [lit "hello"; lit "a & <b>"]); (2500000, 3600040999, [lit "42"]); (3600050000, 3600060000, [lit "x"])] in
  dom_u 1000 0 (times_of_caps cs) /\ lines_visible cs = true /\
  sami_write_doc (lit "en-US") cs = lit "<sami>
 <head>
  <style type=""text/css"">
   <!--
    .en-US {
     lang: en-US;
    }
   -->
  </style>
 </head>
 <body>
  <sync start=""1000"">
   <p class=""en-US"">
    hello<br/>
    a &amp; &lt;b&gt;
   </p>
  </sync>
  <sync start=""2500"">
   <p class=""en-US"">
    42
   </p>
  </sync>
  <sync start=""3600040"">
   <p class=""en-US"">
    &nbsp;
   </p>
  </sync>
  <sync start=""3600050"">
   <p class=""en-US"">
    x
   </p>
  </sync>
 </body>
</sami>
" /\
  sami_read_string (lit "und") (sstyles (lit "en-US")) (sami_body_text (lit "en-US") cs)
  = Ok [(lit "en-US", [(1000000, 2500000); (2500000, 3600040000); (3600050000, 3604050000)])].
Proof. vm_compute. repeat split; try reflexivity; try discriminate. Qed.
End SamiDocumentText.
