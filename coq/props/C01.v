(* C01 - Reading preserves every cue's start and end instant (SRT, WebVTT, DFXP, SAMI, MicroDVD).
   Only statements closed by `exact`, with Print Assumptions; Examples show non-vacuity.
   us q = floor (q * 10^6): whole microseconds of an instant q given in seconds (Q, exact). *)
From Coq Require Import List ZArith QArith Qround Bool.
From PV Require Import lib.Sx lib.Str lib.Result lib.Dec.
From PV Require Import model.TimeRead model.TimeTree spec.SpecTime spec.SpecTimeTree proofs.TimeReadFacts proofs.TimeDocFacts proofs.TimeTreeFacts.
From PV Require Import model.XmlRead spec.SpecXmlDocT proofs.XmlReadFacts.
From PV Require Import model.SamiText spec.SpecSamiText proofs.SamiTextFacts.
Import ListNotations.
Open Scope Z_scope.

(* us is the floor: us q <= q * 10^6 < us q + 1 *)
Theorem C01_us_is_floor : forall q : Q,
  (inject_Z (us q) <= q * 1000000)%Q /\ (q * 1000000 < inject_Z (us q + 1))%Q.
Proof. exact us_is_floor. Qed.
Print Assumptions C01_us_is_floor.

(* SRT hh:mm:ss[,mmm]: any hour count and zero padding, fraction absent or three digits *)
Theorem C01_srt_stamp_exact : forall t, srt_stamp_dom t = true ->
  srt_to_micro (srt_render_stamp t) = Ok (us (srt_instant t)).
Proof. exact srt_stamp_exact. Qed.
Print Assumptions C01_srt_stamp_exact.

(* WebVTT [hh+:]mm:ss.ttt, hours absent or of any length; the pattern is a prefix match *)
Theorem C01_vtt_stamp_exact : forall t r, vtt_stamp_dom t = true ->
  vtt_timestamp (vtt_render_stamp t ++ r) = Ok (us (vtt_instant t)).
Proof. exact vtt_stamp_exact. Qed.
Print Assumptions C01_vtt_stamp_exact.

(* the configured shift moves the instant by whole milliseconds *)
Theorem C01_vtt_shift_unfold : forall sh t, us (vtt_shifted sh t) = us (vtt_instant t) + sh * 1000.
Proof. exact vtt_shift_exact. Qed.
Print Assumptions C01_vtt_shift_unfold.

(* the whole timing line `start --> end [settings]` with any run of blanks / tabs on either side of the arrow,
   lenient or strict (on ordered cues) *)
Theorem C01_vtt_timing_line_exact : forall strict shift t0 t1 ws1 ws2 tail last,
  vtt_stamp_dom t0 = true -> vtt_stamp_dom t1 = true ->
  blank_run ws1 = true -> blank_run ws2 = true ->
  (tail = [] \/ exists s, tail = 32 :: s) ->
  (strict = true ->
   us (vtt_instant t0) + shift <= us (vtt_instant t1) + shift /\ last <= us (vtt_instant t0) + shift) ->
  vtt_parse_timing strict shift (vtt_render_stamp t0 ++ ws1 ++ lit "-->" ++ ws2 ++ vtt_render_stamp t1 ++ tail) last
  = Ok (us (vtt_instant t0) + shift, us (vtt_instant t1) + shift).
Proof. exact vtt_timing_exact. Qed.
Print Assumptions C01_vtt_timing_line_exact.

(* TTML time expressions: clock time with no fraction, a fraction of ANY length, or a frame
   field (30 fps); offset time in h, m, s, ms, f with integer or fractional count *)
Theorem C01_dfxp_time_exact : forall e, texpr_dom e = true ->
  dfxp_time (texpr_render e) = Ok (us (texpr_instant e)).
Proof. exact dfxp_time_exact. Qed.
Print Assumptions C01_dfxp_time_exact.

(* a <p>: begin+end, or begin+dur *)
Theorem C01_dfxp_begin_end_dur : forall p, dfxp_p_dom p = true ->
  (let '(b, e, d) := dfxp_p_attrs p in dfxp_p_times b e d) = Ok (dfxp_p_expected p).
Proof. exact dfxp_p_exact. Qed.
Print Assumptions C01_dfxp_begin_end_dur.

(* all <p> of a <div>, in order *)
Theorem C01_dfxp_div_exact : forall ps, forallb dfxp_p_dom ps = true ->
  dfxp_div_times (map dfxp_p_attrs ps) = Ok (map dfxp_p_expected ps).
Proof. exact dfxp_div_exact. Qed.
Print Assumptions C01_dfxp_div_exact.

(* begin+dur: the oracle admits floor(begin)+floor(dur) and floor(begin+dur); the model's answer is admitted *)
Theorem C01_dfxp_div_meets_oracle : forall ps, forallb dfxp_p_dom ps = true ->
  ok_times_alt (map dfxp_p_expected ps) (map dfxp_p_expected_alt ps) (dfxp_div_times (map dfxp_p_attrs ps)) = true.
Proof. exact dfxp_div_meets_oracle. Qed.
Print Assumptions C01_dfxp_div_meets_oracle.

(* MicroDVD: frame n under the default rate or any declared decimal rate *)
Theorem C01_mdvd_frames_exact : forall f n, fps_dom f = true ->
  exists fps, (match f with Some l => mdvd_fps (fps_render l) | None => Ok (25, 1) end) = Ok fps /\
              frames_to_micro n fps = Ok (us (frame_instant f n)).
Proof. exact mdvd_frames_exact. Qed.
Print Assumptions C01_mdvd_frames_exact.

(* SAMI: over all strictly increasing sync lists of a language, a cue lasts until the next
   sync of the language (blank or not); the last cue lasts four seconds *)
Theorem C01_sami_backfill : forall ps, sami_dom ps = true -> sami_translate ps = sami_expected ps.
Proof. exact sami_backfill. Qed.
Print Assumptions C01_sami_backfill.

Theorem C01_sami_from_strings : forall ps : list sami_p,
  sami_dom (map (fun p => (sp_ms p, sp_text p)) ps) = true ->
  sami_translate_str (map (fun p => (Some (sami_render_start p), sp_text p)) ps)
  = Ok (sami_expected (map (fun p => (sp_ms p, sp_text p)) ps)).
Proof. exact sami_translate_str_exact. Qed.
Print Assumptions C01_sami_from_strings.

(* ---- whole documents (string level): one caption per non-empty cue, in document order, with the
   denoted times and the text lines; LF or CRLF, any padding, any number of extra blank lines ---- *)
Theorem C01_srt_doc_exact : forall crlf cues, forallb srt_cue_dom cues = true ->
  srt_read (srt_render crlf cues) = read_result (srt_expected_caps cues).
Proof. exact srt_doc_exact. Qed.
Print Assumptions C01_srt_doc_exact.

Theorem C01_vtt_doc_exact : forall strict sh crlf cues, forallb vtt_cue_dom cues = true ->
  (strict = true -> vtt_sorted_from sh 0 cues = true) ->
  vtt_read strict sh (vtt_render crlf cues) = read_result (vtt_expected_caps sh cues).
Proof. exact vtt_doc_exact. Qed.
Print Assumptions C01_vtt_doc_exact.

(* on ordered documents ignore_timing_errors does not change the result *)
(* any header block (header text, header lines, NOTE / STYLE / REGION blocks) before the cues and any block after the last
   cue: lines without an arrow never reach a caption (blocks BETWEEN cues and cue identifiers: vc_pre above) *)
Theorem C01_vtt_doc_exact_framed : forall strict sh crlf hdr cues trailer,
  forallb (fun l => no_linebreak l && no_arrow l) hdr = true ->
  forallb (fun l => no_linebreak l && no_arrow l) trailer = true ->
  forallb vtt_cue_dom cues = true ->
  (strict = true -> vtt_sorted_from sh 0 cues = true) ->
  vtt_read strict sh (render_lines crlf hdr ++ flat_map (vtt_render_cue crlf) cues ++ render_lines crlf trailer)
  = read_result (vtt_expected_caps sh cues).
Proof. exact vtt_doc_exact_framed. Qed.
Print Assumptions C01_vtt_doc_exact_framed.

Theorem C01_vtt_validation_transparent : forall sh crlf cues, forallb vtt_cue_dom cues = true ->
  vtt_sorted_from sh 0 cues = true ->
  vtt_read true sh (vtt_render crlf cues) = vtt_read false sh (vtt_render crlf cues).
Proof. exact vtt_validation_transparent. Qed.
Print Assumptions C01_vtt_validation_transparent.

Theorem C01_mdvd_doc_exact : forall crlf f cues, fps_dom f = true -> forallb mdvd_cue_dom cues = true ->
  mdvd_read (mdvd_render crlf f cues) = read_result (mdvd_expected_caps f cues).
Proof. exact mdvd_doc_exact. Qed.
Print Assumptions C01_mdvd_doc_exact.

(* ---- DFXP and SAMI documents as abstract trees (what BeautifulSoup hands to the readers) ------------
   DFXP: any number of <div>, SEVERAL OF ONE LANGUAGE and NESTED ones included; a paragraph belongs to its nearest
   <div>, its language is the nearest xml:lang on the way out (else the document's, else the default); paragraphs
   with text (time attributes among other attributes) and without (never looked at), or outside every <div>; per
   language the cues of all its divisions in document order *)
Theorem C01_dfxp_doc_exact : forall default tt divs ps, doc_dom divs ps = true ->
  dfxp_read_doc default tt divs (map (fun cp => (fst cp, ap_render (snd cp))) ps)
  = set_result (doc_expected default tt divs ps).
Proof. exact dfxp_doc_exact. Qed.
Print Assumptions C01_dfxp_doc_exact.
Theorem C01_dfxp_blank_paragraph_ignored : forall a ps, dfxp_div_caps (mkXp a false :: ps) = dfxp_div_caps ps.
Proof. exact dfxp_blank_ignored. Qed.
Print Assumptions C01_dfxp_blank_paragraph_ignored.
(* a paragraph with text and no begin, or with neither end nor dur, is refused (CaptionReadTimingError) *)
Theorem C01_dfxp_missing_times_refused : forall b e d,
  dfxp_p_times None e d = Err ETiming /\ dfxp_p_times (Some []) e d = Err ETiming /\
  dfxp_p_times (Some b) None None = Err ETiming.
Proof. exact dfxp_missing_times_refused. Qed.
Print Assumptions C01_dfxp_missing_times_refused.

(* SAMI: several languages over one list of <sync>; every language is back-filled on its own paragraphs *)
Theorem C01_sami_tree_exact : forall langs body, sami_tree_dom langs body = true ->
  sami_read_tree langs (map async_render body) = set_result (sami_tree_expected langs body).
Proof. exact sami_tree_exact. Qed.
Print Assumptions C01_sami_tree_exact.

(* ---- repaired defect #7 on record: the pre-fix scaling of a fraction longer than three digits ---- *)
Theorem C01_dfxp_long_fraction_refuted :
  exists ds, digits_ok ds = true /\ dfxp_fraction_unfixed (digits_str ds) <> Ok (us (frac_q ds)).
Proof. exact dfxp_long_fraction_refuted. Qed.
Print Assumptions C01_dfxp_long_fraction_refuted.

(* ---- non-vacuity ------------------------------------------------------------ *)
Example C01_ex_srt : srt_to_micro (lit "025:01:02,003") = Ok 90062003000.
Proof. vm_compute. reflexivity. Qed.
Example C01_ex_srt_render :
  srt_render_stamp (mkSrt 1 25 1 2 (Some 3)) = lit "025:01:02,003" /\ srt_stamp_dom (mkSrt 1 25 1 2 (Some 3)) = true.
Proof. vm_compute. split; reflexivity. Qed.
Example C01_ex_vtt : vtt_timestamp (lit "100:00:59.999") = Ok 360059999000 /\ vtt_timestamp (lit "59:59.001") = Ok 3599001000.
Proof. vm_compute. split; reflexivity. Qed.
(* the defects repaired by the fix: commits, as the model now computes them *)
Example C01_ex_dfxp_long_fraction : dfxp_time (lit "00:00:01.1234") = Ok 1123400.
Proof. vm_compute. reflexivity. Qed.
Example C01_ex_dfxp_offsets :
  dfxp_time (lit "2.3h") = Ok 8280000000 /\ dfxp_time (lit "0.29h") = Ok 1044000000 /\
  dfxp_time (lit "123f") = Ok 4100000 /\ dfxp_time (lit "00:00:01:15") = Ok 1500000 /\
  dfxp_time (lit "1.0005ms") = Ok 1000.
Proof. vm_compute. repeat split; reflexivity. Qed.
Example C01_ex_dfxp_render :
  texpr_render (Offset 0 2 [3] Mh) = lit "2.3h" /\ us (texpr_instant (Offset 0 2 [3] Mh)) = 8280000000 /\
  texpr_render (Clock 1 0 0 1 (Frac [1;2;3;4])) = lit "00:00:01.1234" /\
  us (texpr_instant (Clock 1 0 0 1 (Frac [1;2;3;4]))) = 1123400.
Proof. vm_compute. repeat split; reflexivity. Qed.
Example C01_ex_mdvd : frames_to_micro 201 (25, 1) = Ok 8040000 /\ frames_to_micro 1001 (23976, 1000) = Ok 41750083.
Proof. vm_compute. split; reflexivity. Qed.
Example C01_ex_sami :
  sami_translate [(1000, true); (2000, false); (5000, true); (6000, true)]
  = [(1000000, 2000000); (5000000, 6000000); (6000000, 10000000)].
Proof. vm_compute. reflexivity. Qed.
Example C01_ex_srt_doc :
  let doc := [mkSrtCue 1 (mkSrt 1 0 0 1 (Some 0)) (mkSrt 0 25 0 2 None) [lit "hello"; lit "world"] 1;
              mkSrtCue 2 (mkSrt 0 99 59 59 (Some 999)) (mkSrt 0 100 0 0 (Some 1)) [lit "42"] 0] in
  forallb srt_cue_dom doc = true /\
  srt_read (srt_render true doc) = Ok [(1000000, 90002000000, [lit "hello"; lit "world"]); (359999999000, 360000001000, [lit "42"])].
Proof. vm_compute. split; reflexivity. Qed.
Example C01_ex_mdvd_doc :
  let cues := [mkMc 0 201 2 203 [lit "a"; lit "b"]; mkMc 0 300 0 400 [[]]] in
  fps_dom (Some (mkFps 0 23 [9; 7; 6])) = true /\ forallb mdvd_cue_dom cues = true /\
  mdvd_read (mdvd_render false (Some (mkFps 0 23 [9; 7; 6])) cues) = Ok [(8383383, 8466800, [lit "a"; lit "b"])].
Proof. vm_compute. repeat split; reflexivity. Qed.
Example C01_ex_vtt_doc :
  let cues := [mkVttCue [lit "NOTE a"; []; lit "id1"] (mkVtt None 0 1 0) (mkVtt (Some (0%nat, 100)) 0 0 5) [9] [32; 32] (Some (lit "align:start")) [lit "x"] 2] in
  forallb vtt_cue_dom cues = true /\ vtt_sorted_from (-500) 0 cues = true /\
  vtt_read true (-500) (vtt_render false cues) = Ok [(500000, 359999505000, [lit "x"])].
Proof. vm_compute. repeat split; reflexivity. Qed.
Example C01_ex_sami_tree :
  let body := [(0%nat, 1000, [(lit "en", true); (lit "fr", true)]); (1%nat, 2000, [(lit "en", false)]);
               (0%nat, 3000, [(lit "fr", true)]); (0%nat, 5000, [(lit "en", true)])] in
  sami_tree_dom [lit "en"; lit "fr"] body = true /\
  sami_read_tree [lit "en"; lit "fr"] (map async_render body)
  = Ok [(lit "en", [(1000000, 2000000); (5000000, 9000000)]); (lit "fr", [(1000000, 3000000); (3000000, 7000000)])].
Proof. vm_compute. split; reflexivity. Qed.
Example C01_ex_dfxp_doc :
  let d := [None] in let fr := [Some (lit "fr"); None] in let frin := [None; Some (lit "fr"); None] in
  let p t := APText [] (mkP (Offset 0 t [] Ms) false (Offset 0 (t + 1) [] Ms)) in
  let ps := [(Some d, p 1); (Some fr, p 5); (Some frin, p 6); (Some d, p 8); (None, p 9);
             (Some [None], APBlank [(lit "begin", lit "junk")]); (Some [None], p 3)] in
  doc_dom [d; fr; frin; [None]] ps = true /\
  dfxp_read_doc (lit "und") (Some (lit "en")) [d; fr; frin; [None]] (map (fun cp => (fst cp, ap_render (snd cp))) ps)
  = Ok [(lit "en", [(1000000, 2000000); (8000000, 9000000); (3000000, 4000000)]);
        (lit "fr", [(5000000, 6000000); (6000000, 7000000)])].
Proof. vm_compute. split; reflexivity. Qed.
Example C01_ex_vtt_timing_line :
  vtt_parse_timing true 0 (lit "00:01.000" ++ [9; 32] ++ lit "-->" ++ [32; 32] ++ lit "01:00:02.500" ++ lit " align:left") 0
  = Ok (1000000, 3602500000).
Proof. vm_compute. reflexivity. Qed.
Example C01_ex_mdvd_fps :
  mdvd_fps (lit "23.976") = Ok (23976, 1000) /\ mdvd_fps (lit " 1e2 ") = Ok (100, 1) /\ mdvd_fps (lit ".5") = Ok (5, 10)
  /\ sami_start (Some (lit "1000.0")) = Ok 1000 /\ sami_start (Some (lit "1e3")) = Ok 1000
  /\ dfxp_time (lit "1s" ++ [10]) = Ok 1000000.
Proof. vm_compute. repeat split; reflexivity. Qed.
Example C01_ex_begin_dur_two_readings :
  let p := mkP (Offset 0 1 [] Mf) true (Offset 0 2 [] Mf) in
  dfxp_p_expected p = (33333, 99999) /\ dfxp_p_expected_alt p = (33333, 100000).
Proof. vm_compute. split; reflexivity. Qed.
Example C01_ex_vtt_framed :
  let cues := [mkVttCue [lit "id-1"] (mkVtt None 0 1 0) (mkVtt None 0 2 500) [32] [32] None [lit "x"] 0] in
  vtt_read true 0 (render_lines false [lit "WEBVTT - a title"; lit "Kind: captions"; []; lit "STYLE"; lit "::cue { color: red }"; []]
                   ++ flat_map (vtt_render_cue false) cues
                   ++ render_lines false [lit "NOTE the end"; lit "of the file"])
  = Ok [(1000000, 2500000, [lit "x"])].
Proof. vm_compute. reflexivity. Qed.

(* ---- wave 7: DFXP documents AS TEXT ------------------------------------------------------------------------------
   xdoc (spec/SpecXmlDocT.v) = element structure + every lexical choice (white space inside tags and between elements,
   quote character per attribute, begin / end / dur anywhere among the other attributes in either order, xml:lang
   anywhere, XML declaration, each character of character data literal / entity / decimal character reference).
   dfxp_read_string (model/XmlRead.v) = text -> tree (after BeautifulSoup + html.parser on this sublanguage) -> the
   queries of DFXPReader.read -> dfxp_read_doc. *)

(* the text of every well-formed abstract document parses to its element tree *)
Theorem C01_dfxp_text_to_tree : forall d, xdoc_ok d = true -> parse_doc (render_doc d) = Some (tree_doc d).
Proof. exact parse_doc_render. Qed.
Print Assumptions C01_dfxp_text_to_tree.

(* well-formed text is inside the domain of the tree-level theorem: every <p> with visible text is timed, and lies in a
   <div> of the document or in none *)
Theorem C01_dfxp_text_domain : forall d, xdoc_ok d = true -> doc_dom (xdoc_divs d) (xdoc_ps d) = true.
Proof. exact xdoc_doc_dom. Qed.
Print Assumptions C01_dfxp_text_domain.

(* STRING LEVEL: reading the rendered text of any well-formed abstract document yields, per language in document order,
   one caption per paragraph with visible text, with the exact denoted instants (CaptionReadNoCaptions if there is none) *)
Theorem C01_dfxp_string_exact : forall default d, xdoc_ok d = true ->
  dfxp_read_string default (render_doc d) = xdoc_expected default d.
Proof. exact dfxp_string_exact. Qed.
Print Assumptions C01_dfxp_string_exact.

Example C01_ex_dfxp_text :
  let f := mkAf [32] [] [] true in let g := mkAf [32; 32] [32] [32] false in
  let t1 := mkP (Offset 0 1 [] Mms) false (Clock 1 0 0 2 (Frac [5])) in
  let d := mkXd (Some (lit "xml version='1.0'?")) [32] [] (Some (f, lit "en")) [] []
             (FElem [] (lit "body") (mkRt [] [])
                (FDiv [32] [] (Some (g, lit "fr")) [] [32]
                   (FP [] (PaTimed [mkRa f (lit "role") (lit "a<b&'c")] [] [] true f g t1) []
                       ([([(104, false)], PBr [32])], [(38, false); (160, true)]) []
                    (FP [] (PaFree []) [] ([], [(160, true); (32, false)]) [] (FEnd [32])))
                   [] (FEnd []))
                [] (FEnd []))
             [] [] in
  xdoc_ok d = true /\
  render_doc d = lit "<?xml version='1.0'?> <tt xml:lang=""en""><body> <div  xml:lang = 'fr' ><p role=""a&lt;b&amp;'c""  end = '00:00:02.5' begin=""1ms"">h<br />&amp;&#160;</p><p>&#160; </p> </div></body></tt>" /\
  dfxp_read_string (lit "und") (render_doc d) = Ok [(lit "fr", [(1000, 2500000)])].
Proof. vm_compute. repeat split; reflexivity. Qed.

(* ---- round 4: SAMI documents AS TEXT (from <BODY> on) ----------------------------------------------------------------
   sdoc (spec/SpecSamiText.v) = syncs and paragraphs + every lexical choice: case of every tag name, attributes with white
   space before the name and around '=', values double-quoted / single-quoted / unquoted, other attributes around start= /
   class= / lang=, every text character literal / entity / decimal reference / &nbsp;, <br> tags, white space between tags.
   sami_read_string (model/SamiText.v) = tokens -> the sync / paragraph machine (what SAMIParser + the second parse hand to
   the walker) -> sami_read_tree; the stylesheet is given as its class -> lang table. *)

(* the text of every well-formed abstract document tokenises to its tags and text runs *)
Theorem C01_sami_text_tokens : forall default styles d, sdoc_ok default styles d = true ->
  stoks (S (length (render_sdoc d))) (render_sdoc d) = Some (toks_doc d).
Proof. exact stoks_doc. Qed.
Print Assumptions C01_sami_text_tokens.

(* STRING LEVEL: reading the rendered text yields, for every language in order of first appearance, exactly the denoted
   captions: a cue lasts until the next sync of ITS language (a blank &nbsp; paragraph ends it), the last one four seconds *)
Theorem C01_sami_string_exact : forall default styles d,
  sdoc_ok default styles d = true -> sami_tree_dom (sdoc_langs d) (sdoc_body d) = true ->
  sami_read_string default styles (render_sdoc d) = sdoc_expected d.
Proof. exact sami_string_exact. Qed.
Print Assumptions C01_sami_string_exact.

Example C01_ex_sami_text :
  let styles := [(lit "encc", lit "en-US"); (lit "frcc", lit "fr")] in
  let a p n q v := mkSa p n [] [] q v in
  let par attrs lang txt := mkSpar (mkSt (lit "P") attrs []) lang ([], txt) (lit "p", []) [] in
  let d := mkSdoc (mkSt (lit "BODY") [] []) [10]
             [mkSsync (mkSt (lit "SYNC") [a [32] (lit "start") 0 (lit "1000")] []) 0 1000 []
                [par [a [32] (lit "class") 0 (lit "ENCC")] (lit "en-US") [ScLit 104; ScLit 38];
                 par [a [32] (lit "class") 34 (lit "hl"); a [32; 32] (lit "lang") 39 (lit "fr")] (lit "fr") [ScLit 120]] (lit "SYNC", []) [10];
              mkSsync (mkSt (lit "Sync") [a [32] (lit "id") 34 (lit "s2"); a [32] (lit "start") 34 (lit "02500")] [32]) 1 2500 []
                [par [a [32] (lit "class") 0 (lit "encc")] (lit "en-US") [ScNbsp]] (lit "sync", [32]) []]
             [((lit "BODY", []), [])] in
  sdoc_ok (lit "und") styles d = true /\ sami_tree_dom (sdoc_langs d) (sdoc_body d) = true /\
  render_sdoc d = lit "<BODY>
<SYNC start=1000><P class=ENCC>h&amp;</p><P class=""hl""  lang='fr'>x</p></SYNC>
<Sync id=""s2"" start=""02500"" ><P class=encc>&nbsp;</p></sync ></BODY>" /\
  sami_read_string (lit "und") styles (render_sdoc d)
  = Ok [(lit "en-US", [(1000000, 2500000)]); (lit "fr", [(1000000, 5000000)])].
Proof. vm_compute. repeat split; reflexivity. Qed.
