(* C06 - SCC captions appear and disappear at the frames their commands are sent.
   Models: model/SccTime.v (time translator), model/SccStash.v (timing-correcting caption list, 4 s default,
   flash scan), model/SccPopon.v (End-Of-Caption / Erase-Displayed-Memory handling on display events).
   Spec: spec/SpecSccTime.v. Only statements closed by `exact`. *)
From Coq Require Import List ZArith QArith Bool.
From PV Require Import lib.Sx lib.Str lib.Result model.SccTime model.SccStash model.SccPopon spec.SpecSccTime.
From PV Require Import model.SccDecoder spec.Spec608 spec.SpecScc05.
From PV Require Import proofs.SccTimeFacts proofs.SccStashFacts proofs.SccPoponFacts proofs.SccPoponStage1 proofs.SccPoponTimesFacts proofs.SccPoponStage4 proofs.SccPoponStage3 proofs.SccPoponStage6 proofs.SccPoponStage5 proofs.SccPoponStage7 proofs.SccPoponStage8 proofs.SccPoponStage9.
From PV Require Import spec.SpecSccTime2 proofs.SccTimesComposeFacts proofs.SccLineLayoutFacts.
From PV Require Import model.SccTokenise proofs.SccTokeniseFacts proofs.SccTextFacts.
Import ListNotations.

(* the string surgery of get_time (`_time[:-2] + str(int(_time[-2:]) + frames)`), the regex prefix match, the split
   and the int() conversions compute, for EVERY well-formed timecode, frame count and offset, the exact instant
   ((3600h + 60m + s) + (ff + k)/30) * rate * 10^6 - offset floored at 0 (ff + k >= 30 needs no carry) *)
Theorem C06_get_time_exact : forall tc k off, tc_wf tc = true -> (0 <= k)%Z ->
  exists t, get_time (render_tc tc) k off = Ok t /\ (t == spec_instant tc k off)%Q.
Proof. exact get_time_exact. Qed.
Print Assumptions C06_get_time_exact.

(* non-drop-frame timecode runs 1001/1000 slower than drop-frame *)
Theorem C06_ndf_is_1001_1000_of_df : forall h m s ff, (0 <= h)%Z -> (0 <= m)%Z -> (0 <= s)%Z -> (0 <= ff)%Z ->
  (time_formula h m s ff false 0 == time_formula h m s ff true 0 * (1001 # 1000))%Q.
Proof. exact ndf_is_1001_1000_of_df. Qed.
Print Assumptions C06_ndf_is_1001_1000_of_df.

(* every instant (whole-second offset) is a multiple of 1/3 microsecond ... *)
Theorem C06_scc_time_lattice : forall tc k (off_s : Z),
  exists n : Z, (spec_instant tc k (inject_Z off_s * inject_Z 1000000) == n # 3)%Q.
Proof. exact scc_time_lattice. Qed.
Print Assumptions C06_scc_time_lattice.

(* ... and a gap of n whole frames is at least half a microsecond away from the joining threshold
   5 * MICROSECONDS_PER_CODEWORD + 1 (constant regenerated from the source): <= 5 frames joins, >= 6 does not *)
Theorem C06_join_threshold_slack : forall (n : Z) (drop : bool),
  let gap := (inject_Z n * ((inject_Z 1000000 / inject_Z 30) * rate drop))%Q in
  (n <= 5 -> (gap + (1 # 2) < join_threshold)%Q)%Z /\ (6 <= n -> (join_threshold + (1 # 2) < gap)%Q)%Z.
Proof. exact join_threshold_slack. Qed.
Print Assumptions C06_join_threshold_slack.
Theorem C06_join_threshold_close : (thr_hi - (1 # 1000000) < join_threshold)%Q /\ (join_threshold <= thr_hi)%Q.
Proof. exact join_threshold_close. Qed.
Print Assumptions C06_join_threshold_close.

(* MAIN: the queue + caption-list logic of the reader, run on ANY sequence of display events with positive instants,
   yields exactly the spans of the statement: each caption from its End-Of-Caption to the next End-Of-Caption /
   Erase-Displayed-Memory, a gap below the threshold closed, a last caption never cleared lasts 4 s, a displayed
   duration in (0, 0.05 s) gives the timing error, nothing displayed gives the no-captions error *)
Theorem C06_popon_read_expected : forall evs, positive evs ->
  popon_read (map to_pev evs) = expected_with join_threshold evs.
Proof. exact popon_read_expected. Qed.
Print Assumptions C06_popon_read_expected.

(* invariants of the timing-correcting list under every history of extend / correct_last_timing operations:
   captions come out in the order stored, with the starts and nodes they were stored with ... *)
Theorem C06_order_kept : forall ops,
  map pc_start (st_caps (srun ops)) = map pc_start (stored ops) /\
  map pc_nodes (st_caps (srun ops)) = map pc_nodes (stored ops).
Proof. exact srun_order. Qed.
Print Assumptions C06_order_kept.
(* ... and start <= end (or end still 0 = not ended) whenever the history is timed: starts never decrease, corrections
   are not earlier than any start *)
Theorem C06_start_le_end : forall ops, timed ops -> Forall end_ok (st_caps (srun ops)).
Proof. exact srun_start_le_end. Qed.
Print Assumptions C06_start_le_end.

Theorem C06_five_frame_join : forall s c b, has_nodes c = true -> batch_ok s ->
  last (map Some (skipn (length (st_caps s) - st_batch s) (st_caps s))) None = Some b ->
  st_caps (stash_extend s [c]) =
    (if Qeq_bool (pc_end b) 0 || negb (Qle_bool join_threshold (pc_start c - pc_end b))
     then map_tail (st_batch s) (set_end (pc_start c)) (st_caps s) else st_caps s) ++ [c]
  /\ st_batch (stash_extend s [c]) = 1%nat.
Proof. exact five_frame_join. Qed.
Print Assumptions C06_five_frame_join.

Theorem C06_last_four_seconds : forall l c, Qeq_bool (pc_end c) 0 = true ->
   exists l', fix_last (l ++ [c]) = l' ++ [set_end (pc_start c + inject_Z 4000000) c] /\ length l' = length l.
Proof. exact last_four_seconds. Qed.
Print Assumptions C06_last_four_seconds.

(* whatever read returns contains no caption displayed for less than 0.05 s *)
Theorem C06_finish_read_unfold : forall s caps, finish_read s = ROk caps ->
   caps = fix_last (st_caps s) /\ forall c, In c caps -> is_flash c = false.
Proof. exact flash_rejected. Qed.
Print Assumptions C06_finish_read_unfold.

(* END TO END on the whole reader model, for the closed stage of the pop-on refinement (one load, one row of basic
   characters at any address, codes single or doubled, any well-formed timecodes, any offset): the caption starts at
   the exact instant its End-Of-Caption word is transmitted (line timecode + one frame per preceding code word) and
   ends at the exact instant of the Erase-Displayed-Memory word. Staged statement `popon_times` = the same for every
   well-formed pop-on program; the remaining stages are covered by the event-level theorem above + correspondence. *)
Theorem C06_popon_single_load_times_partial : forall d r off tcA tcB,
  basic_row r = true -> tc_wf tcA = true -> tc_wf tcB = true ->
  let k := (Z.of_nat (length (emit_load d [r])) - (if d then 2 else 1))%Z in
  exists t1 t2, (t1 == spec_instant tcA k off)%Q /\ (t2 == spec_instant tcB 0 off)%Q /\
    (Qeq_bool t2 0 = false -> is_flash (mkPre t1 t2 [] None) = false ->
     read off [(render_tc tcA, emit_load d [r]); (render_tc tcB, emit_clear d)] =
     ROk [mkPre t1 t2 [CText (row_text r) (row_pos r)] (Some (row_pos r))]).
Proof. exact popon_single_load_times. Qed.
Print Assumptions C06_popon_single_load_times_partial.

(* WELL-FORMED STREAM -> DISPLAY EVENTS -> SPANS, beyond one load (whole reader model): for every sequence of lines, each
   a load (ENM RCL PAC [TO] basic characters EOC, single or doubled) or an Erase-Displayed-Memory line, the captions'
   (start, end) are exactly the spans of the statement computed from the instants of the EOC / EDM words *)
Theorem C06_popon_stage4_spans_partial : forall d off segs evs,
  forallb seg_ok segs = true -> res_map (seg_event d off) segs = Ok evs -> positive evs ->
  spans_of (read off (map (seg_line d) segs)) = expected_with join_threshold evs.
Proof. exact popon_stage4_spans. Qed.
Print Assumptions C06_popon_stage4_spans_partial.

(* ... and for whole programs whose loads have SEVERAL rows (a load whose rows are not adjacent yields several captions
   with identical times): the span of the i-th load, repeated once per caption of that load, is the i-th span of the
   statement; in particular the screens (runs of identical spans) are exactly the expected spans *)
Theorem C06_popon_stage6_spans_partial : forall d off segs evs,
  forallb pseg_ok segs = true -> res_map (pseg_event d off) segs = Ok evs -> positive evs ->
  spans_of (read off (map (pseg_line d) segs))
  = rmap (fun spans => flat_map bspans (combine (ploads_of segs) spans)) (expected_with join_threshold evs).
Proof. exact popon_stage6_spans_mult. Qed.
Print Assumptions C06_popon_stage6_spans_partial.
Theorem C06_popon_stage6_screens_partial : forall d off segs evs,
  forallb pseg_ok segs = true -> res_map (pseg_event d off) segs = Ok evs -> positive evs ->
  rmap screens (spans_of (read off (map (pseg_line d) segs))) = rmap screens (expected_with join_threshold evs).
Proof. exact popon_stage6_spans. Qed.
Print Assumptions C06_popon_stage6_screens_partial.

(* the same for whole programs whose rows carry basic / special / extended characters, backspaces and any preamble style *)
Theorem C06_popon_stage7_spans_partial : forall d off segs evs,
  forallb pseg_ok7 segs = true -> res_map (pseg_event d off) segs = Ok evs -> positive evs ->
  spans_of (read off (map (pseg_line d) segs))
  = rmap (fun spans => flat_map bspans (combine (ploads_of segs) spans)) (expected_with join_threshold evs).
Proof. exact popon_stage7_spans_mult. Qed.
Print Assumptions C06_popon_stage7_spans_partial.

(* popon_times over the FULL item domain (all five item kinds incl. mid-row codes, every preamble style, any number of
   rows per load, any number of loads, one load per line, Erase-Displayed-Memory lines anywhere; domain load_wf per load, see C05):
   the captions of the i-th load all carry the i-th span of the statement computed from the EOC / EDM instants *)
Theorem C06_popon_times : forall d off segs evs,
  forallb pseg_ok8 segs = true -> res_map (pseg_event d off) segs = Ok evs -> positive evs ->
  spans_of (read off (map (pseg_line d) segs))
  = rmap (fun spans => flat_map bspans (combine (ploads_of segs) spans)) (expected_with join_threshold evs).
Proof. exact popon_times. Qed.
Print Assumptions C06_popon_times.
Theorem C06_popon_times_screens : forall d off segs evs,
  forallb pseg_ok8 segs = true -> res_map (pseg_event d off) segs = Ok evs -> positive evs ->
  rmap screens (spans_of (read off (map (pseg_line d) segs))) = rmap screens (expected_with join_threshold evs).
Proof. exact popon_times_screens. Qed.
Print Assumptions C06_popon_times_screens.

(* audit responses (wave 3) *)
(* non-drop = 1001/1000 x drop for EVERY offset, before the flooring at 0 *)
Theorem C06_time_formula_raw : forall h m s ff drop off,
  (time_formula h m s ff drop off == floor0 (raw_us h m s ff drop - off))%Q.
Proof. exact time_formula_raw. Qed.
Print Assumptions C06_time_formula_raw.
Theorem C06_ndf_raw_is_1001_1000_of_df : forall h m s ff,
  (raw_us h m s ff false == raw_us h m s ff true * (1001 # 1000))%Q.
Proof. exact ndf_raw_is_1001_1000_of_df. Qed.
Print Assumptions C06_ndf_raw_is_1001_1000_of_df.

(* output level: start <= end and starts never decrease - for the statement's spans of nondecreasing instants (any
   threshold) and for the captions `read` returns on the pop-on domain *)
Theorem C06_expected_start_le_end : forall thr evs l, (0 <= thr)%Q -> nondecreasing 0 evs -> expected_with thr evs = Ok l ->
  Forall (fun p => (fst p <= snd p)%Q) l /\
  (forall i a b, nth_error l i = Some a -> nth_error l (S i) = Some b -> (fst a <= fst b)%Q).
Proof. exact expected_start_le_end. Qed.
Print Assumptions C06_expected_start_le_end.
Theorem C06_read_start_le_end : forall d off segs evs caps,
  forallb pseg_ok8 segs = true -> res_map (pseg_event d off) segs = Ok evs -> positive evs -> nondecreasing 0 evs ->
  read off (map (pseg_line d) segs) = ROk caps ->
  Forall (fun c => (pc_start c <= pc_end c)%Q) caps /\
  (forall i a b, nth_error caps i = Some a -> nth_error caps (S i) = Some b -> (pc_start a <= pc_start b)%Q).
Proof. exact read_start_le_end. Qed.
Print Assumptions C06_read_start_le_end.

(* composition: the events `read` works from are the statement's instants of the rendered timecodes; on whole-frame
   gaps the threshold "five frames + 1 us" and the harness's upper threshold give the same spans; together with
   popon_times: what `read` returns carries the statement's own spans (up to == of rationals) of the statement's own
   instants, for loads and clear lines stamped with well-formed timecodes of one rate and every instant positive *)
Theorem C06_events_are_spec_instants : forall d off segs, forallb tseg_wf segs = true ->
  exists evs, res_map (pseg_event d off) (map tseg_pseg segs) = Ok evs /\
              Forall2 ev_eq evs (map (tseg_spec_event d off) segs).
Proof. exact events_are_spec_instants. Qed.
Print Assumptions C06_events_are_spec_instants.
Theorem C06_expected_threshold_irrelevant : forall drop off evs,
  (forall e, In e evs -> on_lattice drop off (ev_time e)) ->
  expected_with join_threshold evs = expected_with thr_hi evs.
Proof. exact expected_threshold_irrelevant. Qed.
Print Assumptions C06_expected_threshold_irrelevant.
Theorem C06_read_is_statement_spans : forall d off drop segs,
  forallb tseg_wf segs = true ->
  (forall s, In s segs -> tc_drop (tseg_tc s) = drop) ->
  positive (map (tseg_spec_event d off) segs) ->
  exists r, spans_of (read off (map (pseg_line d) (map tseg_pseg segs)))
            = rmap (fun spans => flat_map bspans (combine (ploads_of (map tseg_pseg segs)) spans)) r /\
            res_span_eq r (expected_with thr_hi (map (tseg_spec_event d off) segs)).
Proof. exact read_is_statement_spans. Qed.
Print Assumptions C06_read_is_statement_spans.

(* ---- wave 5: other stream layouts. The reader model is invariant under cutting / joining timecode lines when every word
   keeps its instant (relayout, see C05_read_layout_invariant), so popon_times holds for every such layout of the same word
   sequence: loads split over lines, several loads on one line, and the writer's inline layout in which the
   Erase-Displayed-Memory code stands on the same line as a load (a join of the clear line with the adjacent load line). *)
Theorem C06_popon_times_layout : forall d off segs evs ls',
  forallb pseg_ok8 segs = true -> res_map (pseg_event d off) segs = Ok evs -> positive evs ->
  relayout off (map (pseg_line d) segs) ls' ->
  spans_of (read off ls')
  = rmap (fun spans => flat_map bspans (combine (ploads_of segs) spans)) (expected_with join_threshold evs).
Proof. exact popon_times_layout. Qed.
Print Assumptions C06_popon_times_layout.
Theorem C06_popon_times_cuts : forall d off segs evs lss,
  forallb pseg_ok8 segs = true -> res_map (pseg_event d off) segs = Ok evs -> positive evs ->
  Forall2 (fun s pieces => cuts off (fst (pseg_line d s)) (snd (pseg_line d s)) pieces) segs lss ->
  spans_of (read off (concat lss))
  = rmap (fun spans => flat_map bspans (combine (ploads_of segs) spans)) (expected_with join_threshold evs).
Proof. exact popon_times_cuts. Qed.
Print Assumptions C06_popon_times_cuts.
Theorem C06_popon_times_merged : forall d off segs1 s1 s2 segs2 evs,
  let segs := segs1 ++ s1 :: s2 :: segs2 in
  forallb pseg_ok8 segs = true -> res_map (pseg_event d off) segs = Ok evs -> positive evs ->
  same_clock off (fst (pseg_line d s1)) (Z.of_nat (length (snd (pseg_line d s1)))) (fst (pseg_line d s2)) ->
  spans_of (read off (map (pseg_line d) segs1 ++ [(fst (pseg_line d s1), snd (pseg_line d s1) ++ snd (pseg_line d s2))]
                      ++ map (pseg_line d) segs2))
  = rmap (fun spans => flat_map bspans (combine (ploads_of segs) spans)) (expected_with join_threshold evs).
Proof. exact popon_times_merged. Qed.
Print Assumptions C06_popon_times_merged.
(* ... and at the level of the SCC TEXT (Coq tokeniser, lower- / upper-case hex, LF / CRLF / CR line ends) *)
Theorem C06_popon_times_text : forall d off segs evs ls' up eol,
  forallb pseg_ok8 segs = true -> res_map (pseg_event d off) segs = Ok evs -> positive evs ->
  relayout off (map (pseg_line d) segs) ls' -> Forall wf_sline ls' -> good_eol eol ->
  spans_of (read off (tokenise (render_gen up eol ls')))
  = rmap (fun spans => flat_map bspans (combine (ploads_of segs) spans)) (expected_with join_threshold evs).
Proof. exact popon_times_text. Qed.
Print Assumptions C06_popon_times_text.
(* non-vacuity: the load of 00:00:01:00 and the clear line written on ONE line / the load cut in two *)
Example C06_layout_instance : forall off,
  relayout off ex_one_line ex_split /\
  relayout off [(lit "00:00:01:00", ex_a ++ ex_b); (lit "00:00:01:07", [37932])] ex_merged.
Proof. intro off. split; [apply ex_relayout|apply ex_relayout_merged]. Qed.

(* known defect #20 (offset beyond the timecodes): instants floored to 0 collide with the end == 0 sentinel *)
Theorem C06_end_zero_sentinel_refuted :
  popon_read (map to_pev [Show 0; Clear 0]) = Ok [(0, 0 + inject_Z 4000000)]%Q /\
  expected_with join_threshold [Show 0; Clear 0] = Ok [(0%Q, 0%Q)].
Proof. exact end_zero_sentinel_refuted. Qed.
Print Assumptions C06_end_zero_sentinel_refuted.

(* non-vacuity *)
Example C06_example_time :
  get_time (lit "01:00:00:28") 5 (inject_Z 1000000) = Ok (time_formula 1 0 0 33 false (inject_Z 1000000)).
Proof. vm_compute. reflexivity. Qed.
Example C06_example_spans :
  let t := inject_Z in
  popon_read (map to_pev [Show (t 1000000%Z); Clear (t 3000000%Z); Show (t 3100000%Z); Show (t 5000000%Z)])
  = Ok [(t 1000000%Z, t 3100000%Z); (t 3100000%Z, t 5000000%Z); (t 5000000%Z, Qplus (t 5000000%Z) (t 4000000%Z))].
Proof. vm_compute. reflexivity. Qed.
(* the harness oracle (request 601) on the fully floored witness of the known defect: the statement's own answer and
   the answer with the two equal spans merged are accepted, the implementation's "+4 s" answer is not *)
Example C06_ok_on_floored_witness :
  ok_c06_gap [Show 0; Clear 0; Show 0; Clear 0] (Ok [(0, 0); (0, 0)])%Q = true /\
  ok_c06_gap [Show 0; Clear 0; Show 0; Clear 0] (Ok [(0, 0)])%Q = true /\
  ok_c06_gap [Show 0; Clear 0; Show 0; Clear 0] (Ok [(0, inject_Z 4000000); (0, inject_Z 4000000)])%Q = false.
Proof. exact ok_on_floored_witness. Qed.
(* the composition is not vacuous: a two-load program with rendered timecodes *)
Example C06_statement_spans_instance :
  exists r, spans_of (read 0 (map (pseg_line false) (map tseg_pseg ex_tsegs)))
            = rmap (fun spans => flat_map bspans (combine (ploads_of (map tseg_pseg ex_tsegs)) spans)) r /\
            res_span_eq r (expected_with thr_hi (map (tseg_spec_event false 0) ex_tsegs)).
Proof. exact (proj2 (proj2 ex_statement_spans)). Qed.

(* ---- wave 7: timing for the layout of pycaption's own SCCWriter (Erase-Displayed-Memory inside the load line, before
   its End-Of-Caption; preamble codes in the indent-0 form). The display events of a writer-style line are Clear at the
   instant of its EDM word and Show at the instant of its EOC word (wexpand); what read returns carries the statement's
   spans of these events ------------------------------------------------------------------------------------------- *)
From PV Require Import spec.SpecScc05Inline proofs.SccInlineEdmFacts.
Theorem C06_popon_times_inline : forall d off ws evs,
  Forall (wseg_clock d off) ws -> forallb pseg_ok8 (wexpand ws) = true ->
  res_map (pseg_event d off) (wexpand ws) = Ok evs -> positive evs ->
  spans_of (read off (map (wseg_line d) ws))
  = rmap (fun spans => flat_map bspans (combine (ploads_of (wexpand ws)) spans)) (expected_with join_threshold evs).
Proof. exact popon_times_inline. Qed.
Print Assumptions C06_popon_times_inline.
(* non-vacuity: the instance of props/C05.v - the first caption ends at the EDM of the second line (one doubled pair
   before the second caption's EOC: the gap of two frames is closed), the second at the clear line *)
Example C06_inline_instance :
  spans_of (read 0 (map (wseg_line true) exw_ws))
  = rmap (fun spans => flat_map bspans (combine (ploads_of (wexpand exw_ws)) spans))
         (match res_map (pseg_event true 0) (wexpand exw_ws) with Ok evs => expected_with join_threshold evs | Err e => Err e end)
  /\ match spans_of (read 0 (map (wseg_line true) exw_ws)) with Ok [(s1, e1); (s2, e2)] => Qeq_bool e1 s2 | _ => false end = true.
Proof. vm_compute. split; reflexivity. Qed.
From PV Require Import proofs.SccInlineCorFacts.
Theorem C06_popon_times_inline_text : forall d off ws evs up eol,
  Forall (wseg_clock d off) ws -> forallb pseg_ok8 (wexpand ws) = true ->
  res_map (pseg_event d off) (wexpand ws) = Ok evs -> positive evs ->
  Forall wf_sline (map (wseg_line d) ws) -> good_eol eol ->
  spans_of (read off (tokenise (render_gen up eol (map (wseg_line d) ws))))
  = rmap (fun spans => flat_map bspans (combine (ploads_of (wexpand ws)) spans)) (expected_with join_threshold evs).
Proof. exact popon_times_inline_text. Qed.
Print Assumptions C06_popon_times_inline_text.

(* ---- wave 8: timing for writer lines with MIXED doubling (special / extended characters single among doubled codes) ---- *)
From PV Require Import spec.SpecSccMixed proofs.SccMixedDoublingFacts.
Theorem C06_popon_times_mixed : forall d off ms evs,
  Forall (mseg_ok d off) ms -> forallb pseg_ok8 (mexpand ms) = true ->
  res_map (pseg_event d off) (mexpand ms) = Ok evs -> positive evs ->
  spans_of (read off (map (mseg_line d) ms))
  = rmap (fun spans => flat_map bspans (combine (ploads_of (mexpand ms)) spans)) (expected_with join_threshold evs).
Proof. exact popon_times_mixed. Qed.
Print Assumptions C06_popon_times_mixed.

(* ---- audit (wave 7): the display instants of a writer-style line are the STATEMENT's instants of its EDM / EOC words ---------
   (step towards C06_read_is_statement_spans for the writer's layout; what is still missing is to carry == of rationals
   through expected_with / the spans, as C06_read_is_statement_spans does for the old layout) *)
Theorem C06_spec_instant_shift : forall t n k off, tc_wf t = true -> (0 <= n)%Z -> (0 <= k)%Z -> (tc_total t + n < 10800000)%Z ->
  (spec_instant (tc_shift t n) k off == spec_instant t (n + k) off)%Q.
Proof. exact spec_instant_shift. Qed.
Print Assumptions C06_spec_instant_shift.
Theorem C06_winline_events_spec : forall d t l off, tc_wf t = true ->
  (tc_total t + Z.of_nat (length (load_body d l)) + 2 < 10800000)%Z ->
  exists t1 t2,
    res_map (pseg_event d off) (wseg_expand (winline d t l)) = Ok [Clear t1; Show t2] /\
    (t1 == spec_instant t (Z.of_nat (length (load_body d l))) off)%Q /\
    (t2 == spec_instant t (Z.of_nat (length (emit_load_w d l)) - (if d then 2 else 1)) off)%Q.
Proof. exact winline_events_spec. Qed.
Print Assumptions C06_winline_events_spec.
