(* C10 - placeholder while the harness is being built *)
From Coq Require Import List ZArith Bool.
From PV Require Import lib.Sx lib.Result model.Store model.Iso.
