(* C10 - Reading is a deterministic, isolated function of document and options.
   Only statements closed by `exact`, with Print Assumptions.  Model: model/Store.v (heap), model/Iso.v (readers,
   edits, histories).  `repaired c` = the base.py default-argument repair and the SCCReader reset are in place. *)
From Coq Require Import List ZArith Bool.
From PV Require Import lib.Sx lib.Result lib.Str model.Store model.Iso
     spec.SpecIso proofs.StoreFacts proofs.IsoFacts proofs.RegionFacts proofs.SccReadFacts proofs.OracleFacts
     proofs.IsoExamples.
Import ListNotations.

(* what a reader allocates for its result is a fresh region, closed under references, and nothing that existed is
   touched (inv st st'); the returned set lives in that region *)
Theorem C10_read_allocates_fresh_closed : forall c rk ri t st st' ri' s,
  fix2 c = true -> fix3 c = true -> read c rk ri t st = (st', ri', s) ->
  inv st st' /\ inr (length st) (length st') s.
Proof. exact read_inv. Qed.
Print Assumptions C10_read_allocates_fresh_closed.

(* the same for anything built through the API *)
Theorem C10_build_allocates_fresh_closed : forall c t st0 st st' v,
  fix2 c = true -> inv st0 st -> build (dflt c) t st = (st', v) ->
  inv st0 st' /\ (length st <= length st')%nat /\ inr (length st0) (length st') v.
Proof. exact build_inv. Qed.
Print Assumptions C10_build_allocates_fresh_closed.

(* an edit of a set assigns only inside the set's own region and to what the edit itself allocates *)
Theorem C10_edit_footprint : forall c R st s e,
  fix2 c = true -> closedR st R -> boundedR (length st) R -> inR R s -> rinv R st (do_edit c st s e).
Proof. exact do_edit_rinv. Qed.
Print Assumptions C10_edit_footprint.

(* invariant over ARBITRARY histories of reads (fresh / reused readers), builds, writes and edits:
   every caption set owns a closed region of the heap and the regions are pairwise disjoint *)
Theorem C10_history_isolated : forall c ops w, repaired c -> isolated w -> isolated (run_world c w ops).
Proof. exact history_isolated. Qed.
Print Assumptions C10_history_isolated.

Theorem C10_step_isolated : forall c w o,
  repaired c -> isolated w ->
  let w' := fst (step c w o) in
  isolated w' /\
  (forall k sk, nth_error (w_sets w) k = Some sk -> ~ edits_set o k ->
                nth_error (w_sets w') k = Some sk /\ forall n, snap n (w_st w') sk = snap n (w_st w) sk).
Proof. exact step_isolated. Qed.
Print Assumptions C10_step_isolated.

(* hence: the mutable footprints of two different sets never meet (the model's aliasing observer) *)
Theorem C10_sets_disjoint : forall c ops i j si sj n,
  repaired c -> i <> j ->
  let w := run_world c world0 ops in
  nth_error (w_sets w) i = Some si -> nth_error (w_sets w) j = Some sj ->
  shares n (w_st w) si sj = false.
Proof. exact sets_disjoint. Qed.
Print Assumptions C10_sets_disjoint.

(* an edit of set j leaves every other set's snapshot unchanged, after any history *)
Theorem C10_edits_isolated : forall c ops j k e sk,
  repaired c -> j <> k ->
  let w := run_world c world0 ops in
  nth_error (w_sets w) k = Some sk ->
  forall n, snap n (w_st (fst (step c w (OEdit j e)))) sk = snap n (w_st w) sk.
Proof. exact edits_isolated. Qed.
Print Assumptions C10_edits_isolated.

(* reads, builds and writes leave every existing set's snapshot unchanged, after any history *)
Theorem C10_creation_and_writes_preserve_sets : forall c ops o k sk,
  repaired c -> (match o with OEdit _ _ => False | _ => True end) ->
  let w := run_world c world0 ops in
  nth_error (w_sets w) k = Some sk ->
  forall n, snap n (w_st (fst (step c w o))) sk = snap n (w_st w) sk.
Proof. exact creation_and_writes_preserve_sets. Qed.
Print Assumptions C10_creation_and_writes_preserve_sets.

(* THE MODEL MEETS THE ORACLE: the extracted property oracle evaluated on the model's own observations of ANY history
   reports nothing: no read / build changes an older set (clauses 3, 6), every read equals the same read by a fresh reader
   in the initial world (clause 4), no edit changes another set (clause 5) *)
Theorem C10_model_meets_oracle : forall c ops,
  repaired c -> check_hist tree tree_eqb TCut false true 0 [] [] (model_obs c world0 ops) = [].
Proof. exact model_meets_ok_c10. Qed.
Print Assumptions C10_model_meets_oracle.

(* every operation keeps the world well formed *)
Theorem C10_history_wf_world : forall c ops w, repaired c -> wf_world w -> wf_world (run_world c w ops).
Proof. exact history_wf_world. Qed.
Print Assumptions C10_history_wf_world.

(* ---- MODEL-ONLY lemmas (definitional; NOT statements about pycaption's parsers) --------------------------------------
   The model has no document, no parser, no read options and no hash seed: `read` takes the RESULT TREE t of the read
   (supplied by the harness from a pristine read of the real reader) and decides only what is ALLOCATED for it.  The four
   lemmas below say that the model allocates exactly t whatever the store and whatever the reader state it is given -
   they are what clause 4 of C10_model_meets_oracle rests on, not evidence that real reading is deterministic; that is
   decided by execution (pristine-read comparison, hash seeds). *)
Theorem C10_model_read_ignores_reader_state : forall c rk ri1 ri2 t st,
  fix3 c = true -> read c rk ri1 t st = read c rk ri2 t st.
Proof. exact read_reader_independent. Qed.
Print Assumptions C10_model_read_ignores_reader_state.

Theorem C10_model_read_snapshot_is_given_tree : forall c rk ri t st st' ri' s n,
  repaired c -> (n <= 60)%nat -> read c rk ri t st = (st', ri', s) ->
  snap (S (S (S (S n)))) st' s = expected n rk t.
Proof. exact read_result_function_of_document. Qed.
Print Assumptions C10_model_read_snapshot_is_given_tree.

Theorem C10_model_read_same_tree_same_snapshot : forall c rk ri1 ri2 t st1 st2 st1' st2' r1 r2 s1 s2 n,
  repaired c -> (n <= 60)%nat -> read c rk ri1 t st1 = (st1', r1, s1) -> read c rk ri2 t st2 = (st2', r2, s2) ->
  snap (S (S (S (S n)))) st1' s1 = snap (S (S (S (S n)))) st2' s2.
Proof. exact read_same_document_same_result. Qed.
Print Assumptions C10_model_read_same_tree_same_snapshot.

Theorem C10_model_build_snapshot_is_given_tree : forall c rk ri t st st' ri' s n,
  fix2 c = true -> (rk =? R_SCC)%Z = false -> (n <= S FUEL)%nat -> read c rk ri t st = (st', ri', s) ->
  snap n st' s = clean_trunc n (unshare (mark_defaults rk t)).
Proof. exact read_result_function_of_document_partial. Qed.
Print Assumptions C10_model_build_snapshot_is_given_tree.

(* before the repairs the statements are false of the faithful model; the witnesses are the replayed histories *)
Theorem C10_shared_default_refuted :
  let c := mkCfg false true true in
  let h := [ORead 0 R_SRT doc_a; ORead 1 R_SRT doc_b] in
  set_after c (h ++ [OEdit 0 (EAddStyle (TStr (lit "s:x")) red)]) 1 <> set_after c h 1 /\
  set_after c (h ++ [OEdit 0 (ECapStyle 0 0 (TStr (lit "s:bold")) (TStr (lit "b:True")))]) 1 <> set_after c h 1 /\
  set_after c (h ++ [OEdit 0 (EAddStyle (TStr (lit "s:x")) red); ORead 2 R_SRT doc_b]) 2 <> doc_b.
Proof. exact shared_default_refuted. Qed.
Print Assumptions C10_shared_default_refuted.

Theorem C10_scc_reuse_refuted :
  let c := mkCfg true false true in
  set_after c [ORead 0 R_SCC doc_a; ORead 0 R_SCC doc_b] 1 <> set_after c [ORead 0 R_SCC doc_a; ORead 1 R_SCC doc_b] 1 /\
  (let w := run_world c world0 [ORead 0 R_SCC doc_a; ORead 0 R_SCC doc_b] in
   shares FUEL (w_st w) (nth 0 (w_sets w) VNone) (nth 1 (w_sets w) VNone) = true).
Proof. exact scc_reuse_refuted. Qed.
Print Assumptions C10_scc_reuse_refuted.

(* non-vacuity: the repaired histories; the initial world satisfies the invariant *)
Example C10_example_isolation :
  let h := [ORead 0 R_SRT doc_a; ORead 1 R_SRT doc_b] in
  set_after fixed (h ++ [OEdit 0 (EAddStyle (TStr (lit "s:x")) red)]) 1 = doc_b /\
  set_after fixed (h ++ [OEdit 0 (EAddStyle (TStr (lit "s:x")) red)]) 0 <> doc_a /\
  set_after fixed (h ++ [OEdit 0 (EAddStyle (TStr (lit "s:x")) red); ORead 0 R_SRT doc_b]) 2 = doc_b /\
  set_after fixed [ORead 0 R_SCC doc_a; ORead 0 R_SCC doc_b] 1 = doc_b /\
  set_after fixed [ORead 0 R_SCC doc_a; ORead 0 R_SCC doc_b] 0 = doc_a.
Proof. exact isolation_example. Qed.

Example C10_world0_isolated : isolated world0.
Proof. exact isolated_world0. Qed.

(* an instance of the edit-footprint / isolation theorems on a concrete world (DFXP-read set edited, SCC-read set kept),
   and the oracle on model observations is not vacuous: before the default-dict repair it reports clauses 5 and 4 *)
Example C10_example_edit_footprint :
  let st := w_st two_reads in
  let s0 := nth 0 (w_sets two_reads) VNone in
  let s1 := nth 1 (w_sets two_reads) VNone in
  let st' := do_edit fixed st s0 (EAppendNode 0 0 (t_text "more")) in
  snap FUEL st' s1 = snap FUEL st s1 /\ snap FUEL st' s0 <> snap FUEL st s0 /\ shares FUEL st' s0 s1 = false.
Proof. exact edit_footprint_instance. Qed.

Example C10_example_oracle_reports_shared_default :
  check_hist tree tree_eqb TCut false true 0 [] []
    (model_obs (mkCfg false true true) world0
       [ORead 0 R_SRT doc_a; ORead 1 R_SRT doc_b; OEdit 0 (EAddStyle (TStr (lit "s:x")) red); ORead 2 R_SRT doc_b])
  = [(2, 5); (3, 4)]%Z.
Proof. exact oracle_reports_shared_default. Qed.

(* the read models build the DAG shape of real results: a span's start and end node carry ONE content dict (marker in the
   given result tree), so the in-place edit node.content[k] = v shows in both - and only there *)
Example C10_example_span_dict_shared :
  set_after fixed [ORead 0 R_DFXP doc_span] 0 = doc_span_snapshot /\
  let after := set_after fixed [ORead 0 R_DFXP doc_span;
                                OEdit 0 (ENodeDict 0 0 0 (TStr (lit "s:color")) (TStr (lit "s:pink")))] 0 in
  content_of after 0 = content_of after 2 /\ content_of after 0 <> content_of doc_span_snapshot 0 /\
  let after' := set_after fixed [ORead 0 R_DFXP doc_span_snapshot;
                                 OEdit 0 (ENodeDict 0 0 0 (TStr (lit "s:color")) (TStr (lit "s:pink")))] 0 in
  content_of after' 0 <> content_of after' 2.
Proof. exact span_dict_is_shared_in_the_model. Qed.

From PV Require Import model.SccLen model.SccStash model.SccDecoder model.SccReuse proofs.SccReuseFacts proofs.SccReuseExamples.
(* ==== wave 7: the decoder state of an SCCReader OBJECT (model/SccReuse.v over the decoder model model/SccDecoder.v) =========
   Here the model DOES contain the document (parsed lines), the decoder and its twelve state fields; a read() starts from
   whatever the reset re-creates (`fs` = the fields it re-creates) and leaves its state in the object - also when it raises. *)

(* MODEL-ONLY / definitional (suffix _unfold, not counted as property theorems): `reader_read` IS `SccDecoder.read` with rstate0 replaced by
   `reset_fields fs s`; with every field re-created the old state is irrelevant by unfolding.  `code_reset` is DEFINED as all twelve
   fields - that SCCReader._reset_state assigns them is read off the AST by the harness and tested by keeping one attribute across
   the reset (request 1002 without the field, alarm level).  The model is the reader with simulate_roll_up=False.
   The substantive results of this block are C10_scc_time_translator_reset_redundant and C10_scc_partial_resets_refuted. *)
(* a reset that covers the decoder state: the object is as new, whatever it went through *)
Theorem C10_scc_reset_covers_fresh_unfold : forall fs s offset, covers fs = true -> reset_fields fs s offset = rstate0 offset.
Proof. exact reset_covers_fresh. Qed.
Print Assumptions C10_scc_reset_covers_fresh_unfold.

(* one read(): for EVERY state the object may be in, every document and offset, the result is that of a new object *)
Theorem C10_scc_read_independent_of_reader_state_unfold : forall fs s offset ls,
  covers fs = true -> snd (reader_read fs s offset ls) = SccDecoder.read offset ls.
Proof. exact reader_read_is_fresh_read. Qed.
Print Assumptions C10_scc_read_independent_of_reader_state_unfold.

(* every history of documents read by one object (refused documents included), from any initial state *)
Theorem C10_scc_reader_history_isolated_unfold : forall fs docs s,
  covers fs = true -> reader_history fs s docs = map (fun d => SccDecoder.read (fst d) (snd d)) docs.
Proof. exact reader_history_isolated. Qed.
Print Assumptions C10_scc_reader_history_isolated_unfold.

(* the same document again, after anything else was read on the object: the same result *)
Theorem C10_scc_same_document_same_result_unfold : forall fs before between after d s,
  covers fs = true ->
  let rs := reader_history fs s (before ++ d :: between ++ d :: after) in
  nth_error rs (length before) = nth_error rs (length before + S (length between)).
Proof. exact reader_history_same_document_same_result. Qed.
Print Assumptions C10_scc_same_document_same_result_unfold.

(* the reset of the repaired code re-creates all twelve fields *)
Theorem C10_scc_model_code_reset_is_all_fields_unfold : covers code_reset = true.
Proof. exact code_reset_covers. Qed.
Print Assumptions C10_scc_model_code_reset_is_all_fields_unfold.

(* not every field of the reset is needed: a reset that leaves the time translator (_last_time, _frames) as the last read
   left it still gives the new-object result, for every state, document and offset (start_at() overwrites both at the first
   line; without a line nothing reads them) *)
Theorem C10_scc_time_translator_reset_redundant : forall fs s offset ls,
  covers (FTc :: FFrames :: fs) = true -> snd (reader_read fs s offset ls) = SccDecoder.read offset ls.
Proof. exact time_translator_reset_redundant. Qed.
Print Assumptions C10_scc_time_translator_reset_redundant.

(* the hypothesis is needed: without any reset (the code before the repair) and with caption_stash / position tracker /
   last_command / non-displayed memory / active buffer / pop-on queue left out, a two-document history exists whose second
   result differs from the read on a new object; the covering reset gives the new-object result on the same histories *)
Theorem C10_scc_partial_resets_refuted :
  forallb (fun w => second_differs (fst (fst w)) (snd (fst w)) (snd w)) witnesses = true /\
  forallb (fun w => negb (second_differs code_reset (snd (fst w)) (snd w))) witnesses = true /\
  forallb (fun w => negb (covers (fst (fst w)))) witnesses = true.
Proof. exact partial_resets_refuted. Qed.
Print Assumptions C10_scc_partial_resets_refuted.

Example C10_example_refused_then_valid :
  reader_history code_reset new_reader [doc_a_cut; doc_b]
  = [RErr ETiming; SccDecoder.read (fst doc_b) (snd doc_b)] /\
  (exists caps, SccDecoder.read (fst doc_b) (snd doc_b) = ROk caps /\ length caps = 1%nat).
Proof. exact refused_then_valid. Qed.

Example C10_example_reset_without_time_translator :
  let fs := [FStash; FTk; FLast; FDstart; FPop; FPaint; FRoll; FActive; FQueue; FTime] in
  covers fs = false /\ covers (FTc :: FFrames :: fs) = true.
Proof. split; reflexivity. Qed.

(* ==== round 4: the instance state of the SAMI / DFXP / MicroDVD / WebVTT reader objects (model/ReaderReuse.v) ==================
   Only the per-object scratch state is modelled (not the parsing of the text): `par` = paragraphs with SAMIReader.line /
   first_alignment or DFXPReader.nodes, `mdvd` = the frame rate, `vtt` = the previous cue's start under the constructor options.
   The state survives read() - also one that raised half way; `fs` = the resets the code performs. *)
From PV Require Import model.ReaderReuse proofs.ReaderReuseFacts.

(* SAMI / DFXP: with `self.line = []` (`self.nodes = []`) and `self.first_alignment = None` BEFORE each paragraph, every history of
   documents on one object - raising ones included, from any initial state - gives the fresh-object results *)
Theorem C10_par_reader_history_isolated : forall fs docs s,
  pcovers fs = true -> par_history fs s docs = map par_fresh docs.
Proof. exact par_history_isolated. Qed.
Print Assumptions C10_par_reader_history_isolated.

(* the resets of the code cover; the reset of first_alignment AFTER the paragraph is redundant *)
Theorem C10_par_code_reset_covers_unfold : pcovers par_code_reset = true /\ pcovers [PLine; PFaPre] = true.
Proof. exact par_code_reset_covers. Qed.
Print Assumptions C10_par_code_reset_covers_unfold.

(* partial resets, two-document witnesses: no `line = []` -> the first caption of document 2 starts with the nodes of document 1's
   last caption; no alignment reset at all -> document 1's alignment positions document 2; only the reset AFTER the paragraph
   -> a document that raises after an inline text-align leaks it (and only such a document does) *)
Theorem C10_par_partial_resets_refuted :
  par_history [PFaPre; PFaPost] pstate0 [pd_text 1; pd_text 2] <> map par_fresh [pd_text 1; pd_text 2] /\
  par_history [PLine] pstate0 [pd_aligned; pd_text 2] <> map par_fresh [pd_aligned; pd_text 2] /\
  par_history [PLine; PFaPost] pstate0 [pd_raises_after_align; pd_text 2] <> map par_fresh [pd_raises_after_align; pd_text 2] /\
  par_history [PLine; PFaPost] pstate0 [pd_aligned; pd_text 2] = map par_fresh [pd_aligned; pd_text 2] /\
  par_history [PLine; PFaPre] pstate0 [pd_raises_after_align; pd_text 2] = map par_fresh [pd_raises_after_align; pd_text 2].
Proof. exact par_partial_resets_refuted. Qed.
Print Assumptions C10_par_partial_resets_refuted.

(* MicroDVD: `fps = Fraction(25)` at the top of read() *)
Theorem C10_mdvd_reader_history_isolated_unfold : forall fs docs s,
  mcovers fs = true -> mdvd_history fs s docs = map mdvd_fresh docs.
Proof. exact mdvd_history_isolated. Qed.
Print Assumptions C10_mdvd_reader_history_isolated_unfold.

Theorem C10_mdvd_no_reset_refuted :
  mdvd_history [] mstate0 [md_ntsc; md_plain] <> map mdvd_fresh [md_ntsc; md_plain] /\
  mdvd_history [] mstate0 [md_header_then_bad; md_plain] <> map mdvd_fresh [md_header_then_bad; md_plain] /\
  mdvd_history [MFps] mstate0 [md_header_then_bad; md_plain] = map mdvd_fresh [md_header_then_bad; md_plain].
Proof. exact mdvd_no_reset_refuted. Qed.
Print Assumptions C10_mdvd_no_reset_refuted.

(* WebVTT: the previous cue's start begins at 0 in every read(), for every option combination *)
Theorem C10_vtt_reader_history_isolated_unfold : forall o fs docs s,
  vcovers fs = true -> vtt_history o fs s docs = map (vtt_fresh o) docs.
Proof. exact vtt_history_isolated. Qed.
Print Assumptions C10_vtt_reader_history_isolated_unfold.

(* with ignore_timing_errors=True (the default) no reset is needed: the previous start is never consulted *)
Theorem C10_vtt_lenient_needs_no_reset : forall o fs docs s,
  v_strict o = false -> vtt_history o fs s docs = map (vtt_fresh o) docs.
Proof. exact vtt_lenient_needs_no_reset. Qed.
Print Assumptions C10_vtt_lenient_needs_no_reset.

(* ignore_timing_errors=False without the reset: document 2 starting before document 1's last cue is refused; the same document
   twice (with a time shift); after a read that raised mid-way *)
Theorem C10_vtt_no_reset_refuted :
  vtt_history (strict 0) [] vstate0 [vd_late; vd_early] <> map (vtt_fresh (strict 0)) [vd_late; vd_early] /\
  vtt_history (strict 500000) [] vstate0 [vd_late; vd_late] <> map (vtt_fresh (strict 500000)) [vd_late; vd_late] /\
  vtt_history (strict 0) [] vstate0 [vd_raises_midway; vd_early] <> map (vtt_fresh (strict 0)) [vd_raises_midway; vd_early] /\
  vtt_history (strict 0) [VPrev] vstate0 [vd_raises_midway; vd_early] = map (vtt_fresh (strict 0)) [vd_raises_midway; vd_early].
Proof. exact vtt_no_reset_refuted. Qed.
Print Assumptions C10_vtt_no_reset_refuted.

(* the generic statement all of the above (and C10_scc_reader_history_isolated_unfold) instantiate: ANY reader object whose read() is
   the fresh read under a covering reset; the same document read twice at any two places of a history gives the same result *)
Theorem C10_reader_object_same_document_same_result :
  forall (S D R F : Type) (prepare : list F -> S -> S) (consume : list F -> S -> D -> S * R) (fresh : D -> R)
         (covers : list F -> bool),
  (forall fs s d, covers fs = true -> snd (obj_read S D R F prepare consume fs s d) = fresh d) ->
  forall fs before between after d s,
  covers fs = true ->
  let rs := obj_history S D R F prepare consume fs s (before ++ d :: between ++ d :: after) in
  nth_error rs (length before) = nth_error rs (length before + Datatypes.S (length between)).
Proof. exact obj_history_same_document. Qed.
Print Assumptions C10_reader_object_same_document_same_result.
