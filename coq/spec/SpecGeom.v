(* C18 / C13 specification, written from the property statements (independent of the model's algorithms;
   it shares only the value types of model/Geometry.v). *)
From Coq Require Import List ZArith QArith Qabs Qround Bool.
From PV Require Import lib.Sx lib.Str lib.Result model.Geometry.
Import ListNotations.
Open Scope Z_scope.

(* ---- the size language: digits+ ('.' digits+)? (px|em|%|c|pt)  |  "0" ------------------ *)
Definition all_digits (s : str) : bool := match s with [] => false | _ => forallb is_digit s end.

(* number part: digits+ or digits+ '.' digits+ *)
Definition is_number (s : str) : bool :=
  match split_ch 46 s with
  | [a] => all_digits a
  | [a; b] => all_digits a && all_digits b
  | _ => false
  end.

Definition ends_with (suf s : str) : option str :=
  let n := (length s - length suf)%nat in
  if (length suf <=? length s)%nat && str_eqb (skipn n s) suf then Some (firstn n s) else None.

Definition spec_units : list unit_ := [PX; EM; PCT; CELL; PT].

(* all (number, unit) decompositions of s; at most one can have a valid number part *)
Definition spec_split (s : str) : option (str * unit_) :=
  fold_right (fun u acc =>
                match ends_with (unit_str u) s with
                | Some num => if is_number num then Some (num, u) else acc
                | None => acc
                end) None spec_units.

Definition in_size_lang (s : str) : bool :=
  str_eqb s (lit "0") || match spec_split s with Some _ => true | None => false end.

(* the same language as a grammar; `denoted` is the positional value of  ip '.' fp  (fp may be empty) *)
Inductive size_lang : str -> Prop :=
| SL_zero : size_lang (lit "0")
| SL_int : forall ip u, all_digits ip = true -> size_lang (ip ++ unit_str u)
| SL_frac : forall ip fp u, all_digits ip = true -> all_digits fp = true ->
                            size_lang (ip ++ 46 :: fp ++ unit_str u).

(* value denoted by a number string *)
Fixpoint digits_q (s : str) (acc : Q) : Q :=
  match s with [] => acc | c :: t => digits_q t (acc * 10 + inject_Z (c - 48))%Q end.
Fixpoint frac_q (s : str) (scale : Q) : Q :=
  match s with [] => 0%Q | c :: t => (inject_Z (c - 48) * scale + frac_q t (scale / 10))%Q end.
Definition number_q (s : str) : Q :=
  match split_ch 46 s with
  | [a] => digits_q a 0%Q
  | [a; b] => (digits_q a 0 + frac_q b (1 # 10))%Q
  | _ => 0%Q
  end.

Definition denoted (ip fp : str) : Q := (digits_q ip 0 + frac_q fp (1 # 10))%Q.

Definition spec_parse (s : str) : option (Q * unit_) :=
  if str_eqb s (lit "0") then Some (0%Q, PX)
  else match spec_split s with
       | Some (num, u) => Some (number_q num, u)
       | None => None
       end.

(* relative closeness for binary64 vs exact decimal: |a-b| <= 1e-9 * max(1,|b|) *)
Definition q_rel_close (a b : Q) : bool :=
  Qle_bool (Qabs (a - b)%Q) ((1 # 1000000000) * (if Qle_bool (Qabs b) 1%Q then 1%Q else Qabs b))%Q.

(* ok_parse: accepted exactly on the language, with the denoted value and unit; everything else is the syntax error *)
Definition ok_parse (s : str) (obs : result (Q * unit_)) : bool :=
  match spec_parse s, obs with
  | Some (v, u), Ok (v', u') => q_rel_close v' v && unit_eqb u u'
  | None, Err ESyntax => true
  | _, _ => false
  end.

(* ---- printing: rounds to two decimals, canonical, re-parses to itself --------------------- *)
(* canonical number: no exponent/sign, at most two decimals, no trailing zero in the fraction, no leading zeros *)
Definition canonical_number (s : str) : bool :=
  match split_ch 46 s with
  | [a] => all_digits a && (match a with 48 :: _ :: _ => false | _ => true end)
  | [a; b] => all_digits a && (match a with 48 :: _ :: _ => false | _ => true end)
              && all_digits b && (length b <=? 2)%nat
              && negb (match rev b with 48 :: _ => true | _ => false end)
  | _ => false
  end.

Definition ok_print (v : Q) (u : unit_) (printed : str) : bool :=
  match spec_split printed with
  | Some (num, u') =>
      unit_eqb u u' && canonical_number num && Qle_bool (Qabs (number_q num - v)%Q) (1 # 200)%Q
  | None => false
  end.

(* ---- equality is component-wise; hash respects it ----------------------------------------- *)
Definition spec_size_eq (a b : size) : bool := Qeq_bool (s_val a) (s_val b) && unit_eqb (s_unit a) (s_unit b).
Definition spec_layout_eq (a b : layout) : bool :=
  opt_eqb (fun p q => spec_size_eq (p_x p) (p_x q) && spec_size_eq (p_y p) (p_y q)) (l_origin a) (l_origin b)
  && opt_eqb (fun p q => spec_size_eq (st_h p) (st_h q) && spec_size_eq (st_v p) (st_v q)) (l_extent a) (l_extent b)
  && opt_eqb (fun p q => spec_size_eq (pd_before p) (pd_before q) && spec_size_eq (pd_after p) (pd_after q)
                         && spec_size_eq (pd_start p) (pd_start q) && spec_size_eq (pd_end p) (pd_end q))
             (l_padding a) (l_padding b)
  && opt_eqb (fun p q => opt_eqb halign_eqb (al_h p) (al_h q) && opt_eqb valign_eqb (al_v p) (al_v q))
             (l_alignment a) (l_alignment b).

(* the same, as propositions: equality of all geometric components (value as a number, unit) *)
Definition size_equiv (a b : size) : Prop := (s_val a == s_val b)%Q /\ s_unit a = s_unit b.
Definition point_equiv (a b : point) : Prop := size_equiv (p_x a) (p_x b) /\ size_equiv (p_y a) (p_y b).
Definition stretch_equiv (a b : stretch) : Prop := size_equiv (st_h a) (st_h b) /\ size_equiv (st_v a) (st_v b).
Definition padding_equiv (a b : padding) : Prop :=
  size_equiv (pd_before a) (pd_before b) /\ size_equiv (pd_after a) (pd_after b)
  /\ size_equiv (pd_start a) (pd_start b) /\ size_equiv (pd_end a) (pd_end b).
Definition alignment_equiv (a b : alignment) : Prop := al_h a = al_h b /\ al_v a = al_v b.
Definition opt_rel {A} (R : A -> A -> Prop) (a b : option A) : Prop :=
  match a, b with None, None => True | Some x, Some y => R x y | _, _ => False end.
(* webvtt_positioning is not a geometric component *)
Definition layout_equiv (a b : layout) : Prop :=
  opt_rel point_equiv (l_origin a) (l_origin b) /\ opt_rel stretch_equiv (l_extent a) (l_extent b)
  /\ opt_rel padding_equiv (l_padding a) (l_padding b) /\ opt_rel alignment_equiv (l_alignment a) (l_alignment b).

Definition gval_equiv (a b : gval) : Prop :=
  match a, b with
  | GSize x, GSize y => size_equiv x y
  | GPoint x, GPoint y => point_equiv x y
  | GStretch x, GStretch y => stretch_equiv x y
  | GPadding x, GPadding y => padding_equiv x y
  | GAlign x, GAlign y => alignment_equiv x y
  | GLayout x, GLayout y => layout_equiv x y
  | _, _ => False
  end.

(* obs: (a == b, a != b, hash a == hash b) *)
Definition ok_eq (a b : layout) (eq ne hash_eq : bool) : bool :=
  Bool.eqb eq (spec_layout_eq a b) && Bool.eqb ne (negb eq) && (negb eq || hash_eq).

(* any two operands (C18 "behave as values"): equal exactly when of the same kind with equal components *)
Definition spec_alignment_eq (p q : alignment) : bool :=
  opt_eqb halign_eqb (al_h p) (al_h q) && opt_eqb valign_eqb (al_v p) (al_v q).
Definition spec_gval_eq (a b : gval) : bool :=
  match a, b with
  | GSize x, GSize y => spec_size_eq x y
  | GPoint x, GPoint y => spec_size_eq (p_x x) (p_x y) && spec_size_eq (p_y x) (p_y y)
  | GStretch x, GStretch y => spec_size_eq (st_h x) (st_h y) && spec_size_eq (st_v x) (st_v y)
  | GPadding x, GPadding y =>
      spec_size_eq (pd_before x) (pd_before y) && spec_size_eq (pd_after x) (pd_after y)
      && spec_size_eq (pd_start x) (pd_start y) && spec_size_eq (pd_end x) (pd_end y)
  | GAlign x, GAlign y => spec_alignment_eq x y
  | GLayout x, GLayout y => spec_layout_eq x y
  | _, _ => false
  end.
(* obs: (bool(a == b), bool(a != b), hash a == hash b) *)
Definition ok_eq_g (a b : gval) (eq ne hash_eq : bool) : bool :=
  Bool.eqb eq (spec_gval_eq a b) && Bool.eqb ne (negb eq) && (negb eq || hash_eq).

(* ---- padding shorthand in TTML order: before, end, after, start ---------------------------- *)
Definition nth_size (l : list size) (n : nat) : option size := nth_error l n.
Definition ttml_padding (l : list size) : option padding :=
  let g i := nth_error l i in
  match length l with
  | 1%nat => match g 0%nat with Some a => Some (mkPadding a a a a) | _ => None end
  | 2%nat => match g 0%nat, g 1%nat with
             | Some bv, Some eh => Some (mkPadding bv bv eh eh) | _, _ => None end
  | 3%nat => match g 0%nat, g 1%nat, g 2%nat with
             | Some b, Some eh, Some a => Some (mkPadding b a eh eh) | _, _, _ => None end
  | 4%nat => match g 0%nat, g 1%nat, g 2%nat, g 3%nat with
             | Some b, Some e, Some a, Some s => Some (mkPadding b a s e) | _, _, _, _ => None end
  | _ => None
  end.

(* ---- C13: relativization --------------------------------------------------------------------- *)
(* px per unit: 1em = 16px, 1pt = 4/3 px; cells: 32 columns x 15 rows *)
Definition spec_pct (a : size) (horizontal : bool) (dim : option Q) : option Q :=
  match s_unit a with
  | PCT => Some (s_val a)
  | CELL => match dim with
            | Some _ => Some (s_val a * 100 / (if horizontal then 32 else 15))%Q
            | None => None
            end
  | u => match dim with
         | Some d => let px := (match u with EM => s_val a * 16 | PT => s_val a * (4 # 3) | _ => s_val a end)%Q in
                     Some (px * 100 / d)%Q
         | None => None
         end
  end.

Definition q_close9 (a b : Q) : bool := Qle_bool (Qabs (a - b)%Q) (1 # 1000000000)%Q.

(* expected outcome for one size on one axis: Some pct, or None = must be refused *)
Definition ok_size_pct (a : size) (horizontal : bool) (dim : option Q) (obs : result size) : bool :=
  match spec_pct a horizontal (given dim), obs with
  | Some v, Ok s => unit_eqb (s_unit s) PCT && q_rel_close (s_val s) v
  | None, Err ERelativization => true
  | _, _ => false
  end.

Local Open Scope Q_scope.
(* ---- C13: fit to screen (percent layouts, origin inside the safe area) ----------------------- *)
Definition in_safe_area (o : point) : bool :=
  unit_eqb (s_unit (p_x o)) PCT && unit_eqb (s_unit (p_y o)) PCT
  && Qle_bool 0 (s_val (p_x o)) && Qle_bool (s_val (p_x o)) 90
  && Qle_bool 0 (s_val (p_y o)) && Qle_bool (s_val (p_y o)) 95.

Definition extent_pct (l : layout) : bool :=
  match l_extent l with
  | Some e => unit_eqb (s_unit (st_h e)) PCT && unit_eqb (s_unit (st_v e)) PCT
              && Qle_bool 0 (s_val (st_h e)) && Qle_bool 0 (s_val (st_v e))
  | None => true
  end.

Definition ok_fit (l : layout) (obs : result layout) : bool :=
  match l_origin l with
  | Some o =>
      if in_safe_area o && extent_pct l then
        match obs with
        | Ok r =>
            match l_origin r, l_extent r with
            | Some o', Some e' =>
                point_eqb o o'
                && unit_eqb (s_unit (st_h e')) PCT && unit_eqb (s_unit (st_v e')) PCT
                && Qle_bool (s_val (p_x o) + s_val (st_h e')) (90 + (1 # 1000000000))
                && Qle_bool (s_val (p_y o) + s_val (st_v e')) (95 + (1 # 1000000000))
                && match l_extent l with
                   | None => q_close9 (s_val (p_x o) + s_val (st_h e')) 90
                             && q_close9 (s_val (p_y o) + s_val (st_v e')) 95
                   | Some e =>
                       (* a dimension that already fits is unchanged; one that does not reaches the edge *)
                       (if Qle_bool (s_val (p_x o) + s_val (st_h e)) 90 then size_eqb (st_h e) (st_h e')
                        else q_close9 (s_val (p_x o) + s_val (st_h e')) 90)
                       && (if Qle_bool (s_val (p_y o) + s_val (st_v e)) 95 then size_eqb (st_v e) (st_v e')
                           else q_close9 (s_val (p_y o) + s_val (st_v e')) 95)
                   end
                && opt_eqb padding_eqb (l_padding l) (l_padding r)
                && opt_eqb alignment_eqb (l_alignment l) (l_alignment r)
            | _, _ => false
            end
        | Err _ => false
        end
      else true
  | None => match obs with Ok r => layout_eqb l r | Err _ => false end
  end.

Local Close Scope Q_scope.
(* ---- C13: a whole layout: every length on its own axis, or refused --------------------------- *)
Definition sizes_axes (l : layout) : list (size * bool) :=
  (match l_origin l with Some p => [(p_x p, true); (p_y p, false)] | None => [] end)
  ++ (match l_extent l with Some e => [(st_h e, true); (st_v e, false)] | None => [] end)
  ++ (match l_padding l with
      | Some p => [(pd_before p, false); (pd_after p, false); (pd_start p, true); (pd_end p, true)]
      | None => [] end).

Definition shape (l : layout) : list bool :=
  [match l_origin l with Some _ => true | None => false end;
   match l_extent l with Some _ => true | None => false end;
   match l_padding l with Some _ => true | None => false end].

Fixpoint all_some {A} (l : list (option A)) : option (list A) :=
  match l with
  | [] => Some []
  | Some a :: t => match all_some t with Some r => Some (a :: r) | None => None end
  | None :: _ => None
  end.

Fixpoint bools_eqb (a b : list bool) : bool :=
  match a, b with
  | [], [] => true
  | x :: a', y :: b' => Bool.eqb x y && bools_eqb a' b'
  | _, _ => false
  end.

Fixpoint sizes_close (exp : list Q) (got : list (size * bool)) : bool :=
  match exp, got with
  | [], [] => true
  | v :: e', (s, _) :: g' => unit_eqb (s_unit s) PCT && q_rel_close (s_val s) v && sizes_close e' g'
  | _, _ => false
  end.

Definition ok_layout_pct (l : layout) (w h : option Q) (obs : result layout) : bool :=
  let exp := map (fun sh => spec_pct (fst sh) (snd sh) (given (if snd sh then w else h))) (sizes_axes l) in
  match all_some exp, obs with
  | Some vs, Ok r =>
      bools_eqb (shape l) (shape r) && sizes_close vs (sizes_axes r)
      && opt_eqb alignment_eqb (l_alignment l) (l_alignment r)
  | None, Err ERelativization => true
  | _, _ => false
  end.

(* padding attribute: 1-4 sizes separated by single spaces, TTML order *)
Definition ok_padding (s : str) (obs : result padding) : bool :=
  match all_some (map spec_parse (split_ch 32 s)) with
  | Some vus =>
      match ttml_padding (map (fun vu => mkSize (fst vu) (snd vu)) vus), obs with
      | Some p, Ok p' =>
          let c a b := q_rel_close (s_val b) (s_val a) && unit_eqb (s_unit a) (s_unit b) in
          c (pd_before p) (pd_before p') && c (pd_after p) (pd_after p')
          && c (pd_start p) (pd_start p') && c (pd_end p) (pd_end p')
      | None, Err (ECrash _) => true     (* 5+ sizes: a ValueError is the documented outcome *)
      | _, _ => false
      end
  | None => match obs with Err ESyntax => true | _ => false end
  end.

(* Point / Stretch attribute: exactly two sizes separated by one space *)
Definition ok_two (s : str) (obs : result (size * size)) : bool :=
  match split_ch 32 s with
  | [a; b] =>
      match spec_parse a, spec_parse b, obs with
      | Some (v1, u1), Some (v2, u2), Ok (x, y) =>
          q_rel_close (s_val x) v1 && unit_eqb u1 (s_unit x) && q_rel_close (s_val y) v2 && unit_eqb u2 (s_unit y)
      | Some _, Some _, _ => false
      | _, _, Err ESyntax => true
      | _, _, _ => false
      end
  | _ => match obs with Err (ECrash _) => true | _ => false end   (* unpacking fails: ValueError *)
  end.

(* ---- C13: printed lengths observed in writer output (binary64 noise allowed: 1/200 + 1e-9) -------------- *)
Definition tol200 : Q := ((1 # 200) + (1 # 1000000000))%Q.
Definition ok_print_tol (v : Q) (u : unit_) (printed : str) : bool :=
  match spec_split printed with
  | Some (num, u') => unit_eqb u u' && canonical_number num && Qle_bool (Qabs (number_q num - v)%Q) tol200
  | None => false
  end.

(* ---- C18, wave 3: what the statement fixes, no more ------------------------------------------------------------ *)
(* printing: "rounds to two decimals and re-parsing reproduces it": a number with at most two decimals, the unit, within
   1/200 of the value.  (The canonical form - no trailing zero, no leading zeros - of ok_print is what the code does and
   what the model is proved to do; it is compared as information, not demanded.) *)
Definition two_decimals (s : str) : bool :=
  match split_ch 46 s with
  | [a] => all_digits a
  | [a; b] => all_digits a && all_digits b && (length b <=? 2)%nat
  | _ => false
  end.
Definition ok_print_stmt (v : Q) (u : unit_) (printed : str) : bool :=
  match spec_split printed with
  | Some (num, u') => unit_eqb u u' && two_decimals num && Qle_bool (Qabs (number_q num - v)%Q) (1 # 200)%Q
  | None => false
  end.

(* padding shorthand: the statement speaks of one to four sizes; an attribute is judged when it is 1-4 strings of the
   size language separated by single spaces (other separators, arities and malformed tokens: counted, not judged) *)
Definition padding_judged (s : str) : bool :=
  match all_some (map spec_parse (split_ch 32 s)) with
  | Some vus => (1 <=? length vus)%nat && (length vus <=? 4)%nat
  | None => false
  end.
Definition two_judged (s : str) : bool :=
  match all_some (map spec_parse (split_ch 32 s)) with
  | Some vus => (length vus =? 2)%nat
  | None => false
  end.

(* equality as identity of normal forms: every number reduced to lowest terms, webvtt_positioning dropped *)
Definition norm_size (a : size) : size := mkSize (Qred (s_val a)) (s_unit a).
Definition norm_point (p : point) : point := mkPoint (norm_size (p_x p)) (norm_size (p_y p)).
Definition norm_stretch (p : stretch) : stretch := mkStretch (norm_size (st_h p)) (norm_size (st_v p)).
Definition norm_padding (p : padding) : padding :=
  mkPadding (norm_size (pd_before p)) (norm_size (pd_after p)) (norm_size (pd_start p)) (norm_size (pd_end p)).
Definition norm_layout (l : layout) : layout :=
  mkLayout (option_map norm_point (l_origin l)) (option_map norm_stretch (l_extent l)) (option_map norm_padding (l_padding l))
           (l_alignment l) None.

(* C13: a length observed in writer output, statement level: <= 2 decimals, the unit, within 1/200 (+1e-9 binary64 noise) *)
Definition ok_print_tol_stmt (v : Q) (u : unit_) (printed : str) : bool :=
  match spec_split printed with
  | Some (num, u') => unit_eqb u u' && two_decimals num && Qle_bool (Qabs (number_q num - v)%Q) tol200
  | None => false
  end.
