(* WebVTT reference parser, written from the WebVTT Recommendation (not from pycaption):
   (a) the cue-text tokenizer (data / escape / tag states) reduced to what a consumer displays: in the escape
       state an HTML character reference is consumed - a named reference of the HTML list (`html5_entities`, the
       table of the Python standard library html.entities.html5, names with ';') or a decimal / hexadecimal numeric
       reference; anything else that starts with '&' stays literal; everything from '<' to the next '>' is a tag and
       shows nothing;
   (b) the block structure of a document: signature line, blocks separated by EMPTY lines, a cue starts at a
       line containing "-->" (also inside a block: the spec's cue-text loop stops at such a line), its payload
       is what follows up to the next such line or the end of the block.
   Simplifications (never exercised by a writer that escapes '&'): references without the final ';' are literal;
   numeric references to NUL, surrogates or beyond U+10FFFF show U+FFFD.
   Definitions only. *)
From Coq Require Import List ZArith Bool.
From PV Require Import lib.Sx lib.Str model.GenText.
Import ListNotations.
Open Scope Z_scope.

Inductive vmode : Type := VData | VEsc (acc : str) | VTag.   (* acc reversed, starts with '&' *)

Definition is_alnum (c : Z) : bool :=
  is_digit c || ((65 <=? c) && (c <=? 90)) || ((97 <=? c) && (c <=? 122)).

Fixpoint assoc_strs (k : str) (l : list (str * str)) : option str :=
  match l with [] => None | (k', v) :: t => if str_eqb k k' then Some v else assoc_strs k t end.

Definition hexv (c : Z) : option Z :=
  if is_digit c then Some (c - 48)
  else if (97 <=? c) && (c <=? 102) then Some (c - 87)
  else if (65 <=? c) && (c <=? 70) then Some (c - 55) else None.
Fixpoint num_val (base : Z) (s : str) (acc : Z) : option Z :=
  match s with
  | [] => Some acc
  | c :: t => match hexv c with
              | Some d => if d <? base then num_val base t (acc * base + d) else None
              | None => None
              end
  end.
Definition scalar (v : Z) : Z :=
  if (v <=? 0) || (1114111 <? v) || ((55296 <=? v) && (v <=? 57343)) then 65533 else v.

(* acc (in order) = "&name" : the text a complete reference "&name;" denotes *)
Definition vtt_entity (name : str) : option str :=
  match name with
  | 38 :: 35 :: c :: ds =>
      if (c =? 120) || (c =? 88) then
        match ds with [] => None | _ => match num_val 16 ds 0 with Some v => Some [scalar v] | None => None end end
      else match num_val 10 (c :: ds) 0 with Some v => Some [scalar v] | None => None end
  | 38 :: n => assoc_strs n html5_entities
  | _ => None
  end.

(* out is reversed *)
Fixpoint vtt_display_aux (m : vmode) (s : str) (out : str) : str :=
  match s with
  | [] => match m with VEsc acc => rev (acc ++ out) | _ => rev out end
  | c :: t =>
      match m with
      | VData =>
          if c =? 38 then vtt_display_aux (VEsc [38]) t out
          else if c =? 60 then vtt_display_aux VTag t out
          else vtt_display_aux VData t (c :: out)
      | VEsc acc =>
          if c =? 59 then
            match vtt_entity (rev acc) with
            | Some v => vtt_display_aux VData t (rev v ++ out)
            | None => vtt_display_aux VData t (59 :: acc ++ out)
            end
          else if is_alnum c || ((c =? 35) && (match acc with [38] => true | _ => false end))
          then vtt_display_aux (VEsc (c :: acc)) t out
          else if c =? 38 then vtt_display_aux (VEsc [38]) t (acc ++ out)
          else if c =? 60 then vtt_display_aux VTag t (acc ++ out)
          else vtt_display_aux VData t (c :: acc ++ out)
      | VTag => if c =? 62 then vtt_display_aux VData t out else vtt_display_aux VTag t out
      end
  end.
Definition vtt_display (s : str) : str := vtt_display_aux VData s [].

(* ---- document structure ------------------------------------------------------ *)
(* lines: LF, CRLF, CR *)
Fixpoint lf_lines_aux (s cur : str) : list str :=
  match s with
  | [] => [rev cur]
  | c :: t =>
      if c =? 10 then rev cur :: lf_lines_aux t []
      else if c =? 13 then rev cur :: (match t with 10 :: t' => lf_lines_aux t' [] | _ => lf_lines_aux t [] end)
      else lf_lines_aux t (c :: cur)
  end.
Definition lf_lines (s : str) : list str := lf_lines_aux s [].

Definition has_arrow (l : str) : bool := is_infix (lit "-->") l.

(* cues of one block (a run of non-empty lines): cur = payload (reversed) of the cue being collected *)
Fixpoint block_cues (ls : list str) (cur : option (list str)) : list (list str) :=
  match ls with
  | [] => match cur with Some p => [rev p] | None => [] end
  | l :: t =>
      if has_arrow l then (match cur with Some p => [rev p] | None => [] end) ++ block_cues t (Some [])
      else match cur with
           | Some p => block_cues t (Some (l :: p))
           | None => block_cues t None         (* identifier / NOTE / STYLE text *)
           end
  end.

(* split into maximal runs of non-empty lines *)
Fixpoint runs_by (blank : str -> bool) (ls : list str) (cur : list str) : list (list str) :=
  match ls with
  | [] => match cur with [] => [] | _ => [rev cur] end
  | l :: t =>
      if blank l then (match cur with [] => runs_by blank t [] | _ => rev cur :: runs_by blank t [] end)
      else runs_by blank t (l :: cur)
  end.

Definition is_empty (l : str) : bool := match l with [] => true | _ => false end.

Fixpoint drop_header (l : list str) : list str :=
  match l with [] => [] | x :: t => if is_empty x then l else drop_header t end.

(* None = no WEBVTT signature.  Result: the raw payload lines of every cue, in order *)
Definition vtt_cues (doc : str) : option (list (list str)) :=
  match lf_lines doc with
  | [] => None
  | l0 :: rest =>
      if is_prefix (lit "WEBVTT") l0 &&
         (match skipn 6 l0 with [] => true | c :: _ => (c =? 32) || (c =? 9) end)
      then
        (* the header block runs to the first empty line *)
        Some (flat_map (fun b => block_cues b None) (runs_by is_empty (drop_header rest) []))
      else None
  end.

(* the displayed lines of every cue *)
Definition vtt_cue_lines (doc : str) : option (list (list str)) :=
  match vtt_cues doc with
  | Some cs => Some (map (map vtt_display) cs)
  | None => None
  end.
