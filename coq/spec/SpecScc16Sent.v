(* C16, independent side: the characters a CEA-608 decoder displays for a roll-up / paint-on word stream, written from
   spec/Spec608.v ONLY (no decoder model, no generated table).  Definitions only.

   A 16-bit word is two bytes, each 7 data bits + odd parity.  With the parity bits stripped:
     - 0x10 <= byte1 <= 0x1f : a CONTROL PAIR.  Among them
         byte1 = 0x11, 0x30 <= byte2 <= 0x3f   special character   (= Spec608.special_word (byte2 - 0x30))
         byte1 = 0x12, 0x20 <= byte2 <= 0x3f   extended character  (= Spec608.extended1_word (byte2 - 0x20))
         byte1 = 0x13, 0x20 <= byte2 <= 0x3f   extended character  (= Spec608.extended2_word (byte2 - 0x20))
         RU2 / RU3 / RU4 / RDC / CR (Spec608.ctrl_word 37 38 39 41 45) close the row being written
         every other control pair (preamble address codes, tab offsets, EDM, ...) displays no character;
     - byte1 >= 0x20 : a CHARACTER PAIR: basic_608 byte1, then basic_608 byte2 when byte2 >= 0x20 (0 is padding);
     - anything else (null fillers) displays nothing.
   "w is parity-correct with bytes b1 b2" is literally `w = Spec608.word b1 b2`, so the recognisers below are the
   inverses of Spec608's own constructors (`special_word i = word 17 (48 + i)` etc.).

   Redundancy: control pairs are transmitted twice; a control pair that immediately repeats the previous word is the
   redundancy copy and is ignored - unless that previous word was itself ignored as a copy (of three copies the third
   counts).  The memory survives line ends.

   Text: as in roll-up / paint-on mode nothing already displayed is erased by these codes, the displayed text is kept
   as (finished rows, row being written); a character pair / special character appends, an extended character is sent
   after a stand-in basic character and replaces it (erases the last character of the row being written, then
   appends), a row-closing code moves the row being written to the finished text. *)
From Coq Require Import List ZArith Bool.
From PV Require Import lib.Sx lib.Str spec.Spec608.
Import ListNotations.
Open Scope Z_scope.

(* ---- bytes ------------------------------------------------------------------------------------------ *)
Definition byte1 (w : Z) : Z := (w / 256) mod 128.
Definition byte2 (w : Z) : Z := w mod 128.
Definition parity_ok (w : Z) : bool := w =? word (byte1 w) (byte2 w).
Definition within (lo hi x : Z) : bool := (lo <=? x) && (x <=? hi).
Definition some {A} (o : option A) : bool := match o with Some _ => true | None => false end.

(* ---- classification ----------------------------------------------------------------------------------- *)
Definition is_ctrl608 (w : Z) : bool := within 16 31 (byte1 w).

Definition special_glyph (w : Z) : option Z :=
  if parity_ok w && (byte1 w =? 17) && within 48 63 (byte2 w)
  then Some (nth (Z.to_nat (byte2 w - 48)) special_608 0) else None.

Definition extended_glyph (w : Z) : option Z :=
  if parity_ok w && within 32 63 (byte2 w) then
    if byte1 w =? 18 then Some (nth (Z.to_nat (byte2 w - 32)) extended1_608 0)
    else if byte1 w =? 19 then Some (nth (Z.to_nat (byte2 w - 32)) extended2_608 0)
    else None
  else None.

Definition pair_glyphs (w : Z) : str :=
  if parity_ok w && within 32 127 (byte1 w)
  then basic_608 (byte1 w) :: (if within 32 127 (byte2 w) then [basic_608 (byte2 w)] else [])
  else [].

(* RU2, RU3, RU4, RDC, CR *)
Definition flush_words : list Z := map ctrl_word [37; 38; 39; 41; 45].
Definition is_flush608 (w : Z) : bool := existsb (Z.eqb w) flush_words.
Definition is_pac608 (w : Z) : bool := some (pac_608 w).
Definition tab_words : list Z := map tab_word [1; 2; 3].
Definition is_tab608 (w : Z) : bool := existsb (Z.eqb w) tab_words.
(* Erase Displayed Memory; the null filler *)
Definition edm608 : Z := ctrl_word 44.
Definition filler608 : Z := word 0 0.

(* ---- one displayed word: (finished rows, row being written) ---------------------------------------------- *)
Definition show608 (w : Z) (acc : str * str) : str * str :=
  match special_glyph w, extended_glyph w with
  | Some g, _ => (fst acc, snd acc ++ [g])
  | None, Some g => (fst acc, removelast (snd acc) ++ [g])
  | None, None => if is_flush608 w then (fst acc ++ snd acc, []) else (fst acc, snd acc ++ pair_glyphs w)
  end.

(* ---- redundancy copies ------------------------------------------------------------------------------- *)
(* the memory: the previous word, or None at the start / when the previous word was ignored as a copy *)
Definition copy608 (m : option Z) (w : Z) : bool :=
  is_ctrl608 w && match m with Some p => p =? w | None => false end.

Definition step608 (st : option Z * (str * str)) (w : Z) : option Z * (str * str) :=
  if copy608 (fst st) w then (None, snd st) else (Some w, show608 w (snd st)).

(* the text displayed for a transmission given as lines of words *)
Definition sent608 (lines : list (list Z)) : str :=
  let acc := snd (fold_left step608 (concat lines) (None, ([], []))) in fst acc ++ snd acc.

(* ---- the well-formed transmissions the equivalence theorem is proved for (proofs/SccSent608Facts.v) ---------- *)
(* a character pair of the domain: both bytes printable (the second may be the padding 0); 0x7f (solid block) is
   excluded because pycaption maps it to the empty string *)
Definition is_char_pair (w : Z) : bool :=
  parity_ok w && within 32 126 (byte1 w) && ((byte2 w =? 0) || within 32 126 (byte2 w)).

(* the alphabet: parity-correct mode commands, CR, EDM, preamble address codes, tab offsets, special and extended
   characters, character pairs, null fillers.  No backspace, no mid-row code, no pop-on command. *)
Definition alpha608 (w : Z) : bool :=
  parity_ok w &&
  (is_flush608 w || (w =? edm608) || is_pac608 w || is_tab608 w || some (special_glyph w)
   || some (extended_glyph w) || is_char_pair w || (w =? filler608)).

(* the memory holds no word other than a positioning code (PAC / tab offset) *)
Definition pos_mem (m : option Z) : bool :=
  match m with None => true | Some p => is_pac608 p || is_tab608 p end.

(* scan of one line; state = (redundancy memory of step608, "the last character of the row being written is a
   basic or special character put there by the last executed word").  None = outside the domain.
     D1  every word is in alpha608;
     D2  a tab offset that is not a redundancy copy comes directly after a PAC or a tab offset, or after an ignored
         copy (pycaption skips a tab offset that does not follow a PAC WITHOUT clearing its doubling memory);
     D3  an extended character that is not a redundancy copy comes directly after the character pair or special
         character whose last character is its stand-in (possibly with that special's copy in between). *)
Fixpoint dom_words (st : option Z * bool) (ws : list Z) : option (option Z * bool) :=
  match ws with
  | [] => Some st
  | w :: t =>
      if alpha608 w then
        if copy608 (fst st) w then dom_words (None, snd st) t
        else if (if is_tab608 w then pos_mem (fst st) else true) && (if some (extended_glyph w) then snd st else true)
             then dom_words (Some w, is_char_pair w || some (special_glyph w)) t
             else None
      else None
  end.

Fixpoint dom_lines (st : option Z * bool) (ls : list (list Z)) : bool :=
  match ls with
  | [] => true
  | l :: t => match dom_words st l with Some st' => dom_lines st' t | None => false end
  end.
