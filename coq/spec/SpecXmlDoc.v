(* C07 specification, document level (wave 7). From the XML 1.0 Recommendation:
     [1]  document ::= prolog element Misc*          [22] prolog ::= XMLDecl? Misc* (doctypedecl Misc* )?
     [23] XMLDecl  ::= '<?xml' VersionInfo EncodingDecl? SDDecl? S? '?>'
     [24] VersionInfo ::= S 'version' Eq (APOS VersionNum APOS | QUOT VersionNum QUOT)    [26] VersionNum ::= '1.' [0-9]+
     [25] Eq ::= S? '=' S?
     [80] EncodingDecl ::= S 'encoding' Eq (QUOT EncName QUOT | APOS EncName APOS)
     [81] EncName ::= [A-Za-z] ([A-Za-z0-9._] | '-')*
     [32] SDDecl ::= S 'standalone' Eq ((APOS 'yes'|'no' in quotes
   restricted to Misc ::= S and no document type declaration (comments and processing instructions are refused, as in the
   content machine of SpecXmlAttr.v, which is reused unchanged for the root element).
   The document machine `dstep` wraps the content machine `xstep`: only white space before the root element's '<',
   the content machine runs until the element opened first is closed (its stack is empty again and it is back in
   content mode), only white space after that. So: exactly one root element, no character data or reference outside it.
   Namespace constraints (Namespaces in XML 1.0: every prefix used is declared on the element or an ancestor, `xml` is
   predeclared) are a separate check `ns_ok` on the parsed events. *)
From Coq Require Import List ZArith Bool.
From PV Require Import lib.Sx lib.Str spec.SpecXmlAttr.
Import ListNotations.
Open Scope Z_scope.

(* ---- the XML declaration ------------------------------------------------------------------------------------ *)
Fixpoint strip_prefix (p s : str) : option str :=
  match p, s with
  | [], _ => Some s
  | a :: p', b :: s' => if a =? b then strip_prefix p' s' else None
  | _ :: _, [] => None
  end.
Definition skip_ws (s : str) : str := lstrip_by is_xml_space s.                              (* S? *)
Definition need_ws (s : str) : option str :=                                                 (* S *)
  match s with c :: t => if is_xml_space c then Some (skip_ws t) else None | [] => None end.
Definition eat_eq (s : str) : option str :=                                                  (* Eq *)
  match skip_ws s with c :: t => if c =? 61 then Some (skip_ws t) else None | [] => None end.
(* the body of a quoted literal up to the closing quote, and what follows *)
Fixpoint until_q (q : Z) (s acc : str) : option (str * str) :=
  match s with [] => None | c :: t => if c =? q then Some (rev acc, t) else until_q q t (c :: acc) end.
Definition quoted (s : str) : option (str * str) :=
  match s with q :: t => if (q =? 34) || (q =? 39) then until_q q t [] else None | [] => None end.
Definition is_ascii_alpha (c : Z) : bool := ((65 <=? c) && (c <=? 90)) || ((97 <=? c) && (c <=? 122)).
Definition version_num_ok (v : str) : bool :=
  match v with a :: b :: d :: ds => (a =? 49) && (b =? 46) && forallb is_digit (d :: ds) | _ => false end.
Definition enc_name_ok (v : str) : bool :=
  match v with
  | c :: t => is_ascii_alpha c && forallb (fun x => is_ascii_alpha x || is_digit x || (x =? 46) || (x =? 95) || (x =? 45)) t
  | [] => false
  end.
Definition sd_ok (v : str) : bool := str_eqb v (lit "yes") || str_eqb v (lit "no").

(* S name Eq literal, the literal satisfying `ok`: what follows *)
Definition pseudo_attr (name : str) (ok : str -> bool) (s : str) : option str :=
  match need_ws s with
  | Some s1 =>
      match strip_prefix name s1 with
      | Some s2 =>
          match eat_eq s2 with
          | Some s3 => match quoted s3 with Some (v, s4) => if ok v then Some s4 else None | None => None end
          | None => None
          end
      | None => None
      end
  | None => None
  end.
(* an optional item: nothing but later items, S? and '?>' may follow, so a failed attempt is simply not consumed *)
Definition opt_pseudo_attr (name : str) (ok : str -> bool) (s : str) : str :=
  match pseudo_attr name ok s with Some r => r | None => s end.

(* what follows the XML declaration (the string itself when it does not start with '<?xml'); None = malformed *)
Definition xml_decl (s : str) : option str :=
  match strip_prefix (lit "<?xml") s with
  | Some s1 =>
      match pseudo_attr (lit "version") version_num_ok s1 with
      | Some s2 =>
          let s3 := opt_pseudo_attr (lit "encoding") enc_name_ok s2 in
          let s4 := opt_pseudo_attr (lit "standalone") sd_ok s3 in
          strip_prefix (lit "?>") (skip_ws s4)
      | None => None
      end
  | None => Some s
  end.

(* ---- the document machine ------------------------------------------------------------------------------------- *)
Inductive dphase := DPre | DRoot | DPost.
(* the content machine is back in content mode with nothing open: the element opened first has just been closed *)
Definition root_closed (s : pst) : bool :=
  match p_stack s, p_mode s with [], MContent _ => true | _, _ => false end.

Definition dstep (st : dphase * pst) (c : Z) : option (dphase * pst) :=
  match fst st with
  | DPre => if is_xml_space c then Some st
            else if c =? 60 then match xstep (snd st) c with Some s' => Some (DRoot, s') | None => None end
            else None
  | DRoot => match xstep (snd st) c with
             | Some s' => Some (if root_closed s' then DPost else DRoot, s')
             | None => None
             end
  | DPost => if is_xml_space c then Some st else None
  end.
Fixpoint drun (st : dphase * pst) (inp : str) : option (dphase * pst) :=
  match inp with
  | [] => Some st
  | c :: t => match dstep st c with Some st' => drun st' t | None => None end
  end.

(* the events of a well-formed document, else None *)
Definition doc_parse (s : str) : option (list xev) :=
  match xml_decl s with
  | Some rest =>
      match drun (DPre, pst0) rest with
      | Some (DPost, st) => Some (rev (p_ev st))
      | _ => None
      end
  | None => None
  end.

(* ---- namespace constraints on the events ------------------------------------------------------------------------ *)
(* the prefix of a qualified name (None = unprefixed); a name with two colons, or an empty prefix / local part, is not
   a QName *)
Fixpoint split_colon (s acc : str) : option (str * str) :=
  match s with [] => None | c :: t => if c =? 58 then Some (rev acc, t) else split_colon t (c :: acc) end.
Definition qname_prefix (n : str) : option (option str) :=
  match split_colon n [] with
  | None => Some None
  | Some (p, l) => match p, l with
                   | _ :: _, _ :: _ => if existsb (Z.eqb 58) l then None else Some (Some p)
                   | _, _ => None
                   end
  end.
Definition xmlns_s : str := lit "xmlns".
(* prefixes declared by the attributes of a start tag *)
Definition declared_by (attrs : list (str * str)) : list str :=
  flat_map (fun kv => match split_colon (fst kv) [] with
                      | Some (p, l) => if str_eqb p xmlns_s then [l] else []
                      | None => [] end) attrs.
Definition prefix_ok (scope : list str) (n : str) : bool :=
  match qname_prefix n with
  | None => false
  | Some None => true
  | Some (Some p) => str_eqb p (lit "xml") || str_eqb p xmlns_s || existsb (str_eqb p) scope
  end.
(* scopes: one list of declared prefixes per open element *)
Fixpoint ns_walk (scopes : list (list str)) (evs : list xev) : bool :=
  match evs with
  | [] => true
  | EText _ :: t => ns_walk scopes t
  | EOpen n attrs :: t =>
      let sc := declared_by attrs ++ concat scopes in
      (* a declaration xmlns:p="" is refused; the prefix xmlns itself must not be declared *)
      forallb (fun kv => match split_colon (fst kv) [] with
                         | Some (p, l) => negb (str_eqb p xmlns_s) || (negb (str_eqb l xmlns_s) && match snd kv with [] => false | _ => true end)
                         | None => true end) attrs
      && prefix_ok sc n && forallb (fun kv => prefix_ok sc (fst kv)) attrs && ns_walk (declared_by attrs :: scopes) t
  | EClose _ :: t => ns_walk (tl scopes) t
  end.
Definition ns_ok (evs : list xev) : bool := ns_walk [] evs.
(* a `root` document in the namespace `ns`: the first event opens an unprefixed `root` whose xmlns attribute is ns *)
(* the namespace names, as literals from the TTML recommendation (TTML1 section 5.1: the TT namespace and the TT Style
   namespace).  The specification owns them; proofs/DfxpSkelRootFacts.v shows that the writer model uses exactly these *)
Definition spec_ttml_ns : str := lit "http://www.w3.org/ns/ttml".
Definition spec_tts_ns : str := lit "http://www.w3.org/ns/ttml#styling".

Definition root_in_ns (root ns : str) (evs : list xev) : bool :=
  match evs with
  | EOpen n attrs :: _ => str_eqb n root && existsb (fun kv => str_eqb (fst kv) xmlns_s && str_eqb (snd kv) ns) attrs
  | _ => false
  end.
