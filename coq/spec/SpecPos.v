(* C12 / C13 specification of the WebVTT cue settings and of "every length is a percentage", written from the
   property statements; shares only the value types with the models. *)
From Coq Require Import List ZArith QArith Qabs Bool.
From PV Require Import lib.Sx lib.Str lib.Result model.Geometry model.Positioning spec.SpecGeom.
Import ListNotations.
Open Scope Z_scope.

(* every length of a layout is a percentage *)
Definition all_pct (l : layout) : bool := forallb (fun sh => unit_eqb (s_unit (fst sh)) PCT) (sizes_axes l).
Definition opt_all_pct (o : option layout) : bool := match o with Some l => all_pct l | None => true end.

(* the layouts a DFXP / SAMI document is written from: language, caption and node level *)
Definition written_layouts_lang (lg : nlang) : list (option layout) :=
  nl_layout lg :: flat_map (fun c => nc_layout c :: map n_layout (nc_nodes c)) (nl_caps lg).
Definition written_layouts (s : nset) : list (option layout) := flat_map written_layouts_lang (ns_langs s).

(* a length that cannot be converted: absolute unit on an axis whose video dimension is absent *)
Definition needs_missing (w h : option Q) (l : layout) : bool :=
  existsb (fun sh => match spec_pct (fst sh) (snd sh) (given (if snd sh then w else h)) with None => true | Some _ => false end)
          (sizes_axes l).

(* ---- WebVTT cue settings (statement C12): for a percentage layout with an origin ------------------------------
   align    omitted iff the horizontal alignment is center (absent alignment: the default, start)
   position = left edge + left padding          line = top edge + top padding
   size     = width - left padding - right padding      (when the layout has an extent) *)
Definition spec_halign (l : layout) : halign :=
  match l_alignment l with
  | Some a => match al_h a with Some h => h | None => HStart end
  | None => HStart
  end.

Definition pad_of (f : padding -> size) (l : layout) : Q :=
  match l_padding l with Some p => s_val (f p) | None => 0%Q end.

Definition q_close_tol (a b : Q) : bool := Qle_bool (Qabs (a - b)%Q) tol200.

Definition size_is (o : option size) (v : Q) : bool :=
  match o with Some s => unit_eqb (s_unit s) PCT && q_close_tol (s_val s) v | None => false end.

Definition ok_vtt_arith (l : layout) (o : vtt_settings) : bool :=
  match l_origin l with
  | Some org =>
      (match vs_align o with
       | None => halign_eqb (spec_halign l) HCenter
       | Some h => halign_eqb h (spec_halign l) && negb (halign_eqb h HCenter)
       end)
      && size_is (vs_position o) (s_val (p_x org) + pad_of pd_start l)%Q
      && size_is (vs_line o) (s_val (p_y org) + pad_of pd_before l)%Q
      && (match l_extent l with
          | Some e => size_is (vs_size o) (s_val (st_h e) - pad_of pd_start l - pad_of pd_end l)%Q
          | None => match vs_size o with None => true | Some _ => false end
          end)
  | None => true
  end.

(* WebVTT never carries a non-percentage length *)
Definition vs_all_pct (o : vtt_settings) : bool :=
  let p x := match x with Some s => unit_eqb (s_unit s) PCT | None => true end in
  p (vs_position o) && p (vs_line o) && p (vs_size o).
Definition vtt_out_pct (o : vtt_out) : bool := match o with VSet s => vs_all_pct s | _ => true end.

(* ---- C12: DFXP round trip (statement level) ------------------------------------------------------------------ *)
(* the effective layout of a character: node level, else caption level, else language level *)
Definition spec_effective (lang_l cap_l node_l : option layout) : option layout :=
  match node_l, cap_l, lang_l with
  | Some n, _, _ => if layout_truthy n then Some n else
                    match cap_l with
                    | Some c => if layout_truthy c then Some c else lang_l
                    | None => lang_l
                    end
  | None, Some c, _ => if layout_truthy c then Some c else lang_l
  | None, None, _ => lang_l
  end.

(* what a DFXP document can carry: two-decimal percentages; absent alignment parts take the defaults start / after *)
Definition round2 (a : size) : size := mkSize (inject_Z (hundredths (s_val a)) / 100)%Q (s_unit a).
Definition spec_read_back (l : layout) : layout :=
  mkLayout (option_map (fun p => mkPoint (round2 (p_x p)) (round2 (p_y p))) (l_origin l))
           (option_map (fun p => mkStretch (round2 (st_h p)) (round2 (st_v p))) (l_extent l))
           (option_map (fun p => mkPadding (round2 (pd_before p)) (round2 (pd_after p)) (round2 (pd_start p)) (round2 (pd_end p)))
                       (l_padding l))
           (Some (mkAlign (Some (match l_alignment l with Some a => match al_h a with Some h => h | None => HStart end | None => HStart end))
                          (Some (match l_alignment l with Some a => match al_v a with Some v => v | None => VBottom end | None => VBottom end))))
           None.
Definition spec_default_read : layout := mkLayout None None None (Some (mkAlign (Some HStart) (Some VBottom))) None.

(* expected effective layout after write + read, given the (already transformed) layouts of the three levels *)
Definition expected_effective (lang_l cap_l node_l : option layout) : layout :=
  match spec_effective lang_l cap_l node_l with
  | Some l => if layout_truthy l then (if has_region l then spec_read_back l else spec_default_read) else spec_default_read
  | None => spec_default_read
  end.

(* the same without the rounding: the exact layout whose two-decimal print the document carries *)
Definition spec_fill_defaults (l : layout) : layout :=
  mkLayout (l_origin l) (l_extent l) (l_padding l)
           (Some (mkAlign (Some (match l_alignment l with Some a => match al_h a with Some h => h | None => HStart end | None => HStart end))
                          (Some (match l_alignment l with Some a => match al_v a with Some v => v | None => VBottom end | None => VBottom end))))
           None.
Definition expected_effective_exact (lang_l cap_l node_l : option layout) : layout :=
  match spec_effective lang_l cap_l node_l with
  | Some l => if layout_truthy l then (if has_region l then spec_fill_defaults l else spec_default_read) else spec_default_read
  | None => spec_default_read
  end.

(* observation: the layout found on the character after reading; compared on the geometric components; its values
   are re-parsed two-decimal prints of binary64 results, so each must be within 1/200 (+1e-9) of the exact value *)
Definition size_close (a b : size) : bool := unit_eqb (s_unit a) (s_unit b) && q_close_tol (s_val a) (s_val b).
Definition layout_close (a b : layout) : bool :=
  opt_eqb (fun p q => size_close (p_x p) (p_x q) && size_close (p_y p) (p_y q)) (l_origin a) (l_origin b)
  && opt_eqb (fun p q => size_close (st_h p) (st_h q) && size_close (st_v p) (st_v q)) (l_extent a) (l_extent b)
  && opt_eqb (fun p q => size_close (pd_before p) (pd_before q) && size_close (pd_after p) (pd_after q)
                         && size_close (pd_start p) (pd_start q) && size_close (pd_end p) (pd_end q))
             (l_padding a) (l_padding b)
  && opt_eqb alignment_eqb (l_alignment a) (l_alignment b).

Definition ok_effective (lang_l cap_l node_l : option layout) (obs : option layout) : bool :=
  match obs with
  | Some o => layout_close o (expected_effective_exact lang_l cap_l node_l)
  | None => false
  end.

(* WebVTT: nodes of one caption with different layouts become separate cues: one cue per maximal run of equal layouts
   (the representative is the last layout of the run) *)
Fixpoint runs_last (ls : list layout) : list layout :=
  match ls with
  | [] => []
  | a :: t => match t with
              | [] => [a]
              | b :: _ => if layout_eqb b a then runs_last t else a :: runs_last t
              end
  end.
