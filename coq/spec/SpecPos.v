(* C12 / C13 specification of the WebVTT cue settings and of "every length is a percentage", written from the
   property statements; shares only the value types with the models. *)
From Coq Require Import List ZArith QArith Qabs Bool.
From PV Require Import lib.Sx lib.Str lib.Result model.Geometry model.Positioning spec.SpecGeom.
Import ListNotations.
Open Scope Z_scope.

(* every length of a layout is a percentage *)
Definition all_pct (l : layout) : bool := forallb (fun sh => unit_eqb (s_unit (fst sh)) PCT) (sizes_axes l).
Definition opt_all_pct (o : option layout) : bool := match o with Some l => all_pct l | None => true end.

(* the layouts a DFXP / SAMI document is written from: language, caption and node level *)
Definition written_layouts_lang (lg : nlang) : list (option layout) :=
  nl_layout lg :: flat_map (fun c => nc_layout c :: map n_layout (nc_nodes c)) (nl_caps lg).
Definition written_layouts (s : nset) : list (option layout) := flat_map written_layouts_lang (ns_langs s).

(* a length that cannot be converted: absolute unit on an axis whose video dimension is absent *)
Definition needs_missing (w h : option Q) (l : layout) : bool :=
  existsb (fun sh => match spec_pct (fst sh) (snd sh) (given (if snd sh then w else h)) with None => true | Some _ => false end)
          (sizes_axes l).

(* ---- WebVTT cue settings (statement C12): for a percentage layout with an origin ------------------------------
   align    omitted iff the horizontal alignment is center (absent alignment: the default, start)
   position = left edge + left padding          line = top edge + top padding
   size     = width - left padding - right padding      (when the layout has an extent) *)
Definition spec_halign (l : layout) : halign :=
  match l_alignment l with
  | Some a => match al_h a with Some h => h | None => HStart end
  | None => HStart
  end.

Definition pad_of (f : padding -> size) (l : layout) : Q :=
  match l_padding l with Some p => s_val (f p) | None => 0%Q end.

Definition q_close_tol (a b : Q) : bool := Qle_bool (Qabs (a - b)%Q) tol200.

Definition size_is (o : option size) (v : Q) : bool :=
  match o with Some s => unit_eqb (s_unit s) PCT && q_close_tol (s_val s) v | None => false end.

Definition ok_vtt_arith (l : layout) (o : vtt_settings) : bool :=
  match l_origin l with
  | Some org =>
      (match vs_align o with
       | None => halign_eqb (spec_halign l) HCenter
       | Some h => halign_eqb h (spec_halign l) && negb (halign_eqb h HCenter)
       end)
      && size_is (vs_position o) (s_val (p_x org) + pad_of pd_start l)%Q
      && size_is (vs_line o) (s_val (p_y org) + pad_of pd_before l)%Q
      && (match l_extent l with
          | Some e => size_is (vs_size o) (s_val (st_h e) - pad_of pd_start l - pad_of pd_end l)%Q
          | None => match vs_size o with None => true | Some _ => false end
          end)
  | None => true
  end.

(* WebVTT never carries a non-percentage length *)
Definition vs_all_pct (o : vtt_settings) : bool :=
  let p x := match x with Some s => unit_eqb (s_unit s) PCT | None => true end in
  p (vs_position o) && p (vs_line o) && p (vs_size o).
Definition vtt_out_pct (o : vtt_out) : bool := match o with VSet s => vs_all_pct s | _ => true end.
