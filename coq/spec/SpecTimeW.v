(* C02 specification, from the property statement only: the resolution each format has
   (milliseconds; 25 fps frames), the accepted values for a time t, independent parsers of
   the written timestamp tokens (field widths, ranges, integer literals), the cue structure
   per writer, the SAMI sync rule. Definitions only. *)
From Coq Require Import List ZArith QArith Qround Bool.
From PV Require Import lib.Sx lib.Str lib.Result model.Base spec.SpecBase.
Import ListNotations.
Open Scope Z_scope.

(* ---- resolution ----------------------------------------------------------------- *)
Definition floor_ms (t : Q) : Z := Qfloor (t / 1000).
Definition floor_frames (t : Q) : Z := Qfloor (t * 25 / 1000000).

(* a non-integer time may also be taken to the nearest whole microsecond first (either
   neighbour on a tie): the upper neighbour is admissible when the fraction is >= 1/2 *)
Definition up_ok (t : Q) : bool := Qle_bool (1 # 2) (t - inject_Z (Qfloor t)).
Definition acc_ms (t : Q) (v : Z) : bool :=
  (v =? floor_ms t) || (up_ok t && (v =? (Qfloor t + 1) / 1000)).
Definition acc_frames (t : Q) (v : Z) : bool :=
  (v =? floor_frames t) || (up_ok t && (v =? (Qfloor t + 1) * 25 / 1000000)).

(* ---- token parsers (independent of pycaption's readers) ------------------------- *)
Definition d2 (a b : Z) : option Z :=
  if is_digit a && is_digit b then Some ((a - 48) * 10 + (b - 48)) else None.
Definition d3 (a b c : Z) : option Z :=
  if is_digit a && is_digit b && is_digit c then Some ((a - 48) * 100 + (b - 48) * 10 + (c - 48)) else None.

(* HH:MM:SS<sep>mmm with 2/2/2/3 digits, MM < 60, SS < 60 -> milliseconds *)
Definition parse_hms (sep : Z) (s : str) : option Z :=
  match s with
  | [h1; h2; c1; m1; m2; c2; s1; s2; p; f1; f2; f3] =>
      if (c1 =? 58) && (c2 =? 58) && (p =? sep) then
        match d2 h1 h2, d2 m1 m2, d2 s1 s2, d3 f1 f2 f3 with
        | Some h, Some m, Some s, Some f =>
            if (m <? 60) && (s <? 60) then Some (((h * 60 + m) * 60 + s) * 1000 + f) else None
        | _, _, _, _ => None
        end
      else None
  | _ => None
  end.

(* WebVTT: MM:SS.mmm, or HH+:MM:SS.mmm with at least two hour digits *)
Definition parse_mmss (s : str) : option Z :=
  match s with
  | [m1; m2; c; s1; s2; p; f1; f2; f3] =>
      if (c =? 58) && (p =? 46) then
        match d2 m1 m2, d2 s1 s2, d3 f1 f2 f3 with
        | Some m, Some s, Some f => if (m <? 60) && (s <? 60) then Some ((m * 60 + s) * 1000 + f) else None
        | _, _, _ => None
        end
      else None
  | _ => None
  end.
Definition parse_vtt (s : str) : option Z :=
  match parse_mmss s with
  | Some v => Some v
  | None =>
      let h := take_while is_digit s in
      match drop_while is_digit s with
      | 58 :: rest =>
          if (2 <=? length h)%nat then
            match digits_val_acc h 0, parse_mmss rest with
            | Some hh, Some v => Some (hh * 3600000 + v)
            | _, _ => None
            end
          else None
      | _ => None
      end
  end.

(* a decimal integer literal *)
Definition parse_int (s : str) : option Z := int_of_digits s.

Definition ok_hms (sep : Z) (t : Q) (tok : str) : bool :=
  match parse_hms sep tok with Some v => acc_ms t v | None => false end.
Definition ok_vtt (t : Q) (tok : str) : bool :=
  match parse_vtt tok with Some v => acc_ms t v | None => false end.
Definition ok_frames (t : Q) (tok : str) : bool :=
  match parse_int tok with Some v => acc_frames t v | None => false end.

(* ---- cue structure ----------------------------------------------------------------- *)
Definition span (c : caption) : Q * Q := (c_start c, c_end c).

Inductive wkind := WSrt | WDfxp | WMerged (* legacy, single-position *) | WVtt | WMdvd.

Definition ok_token (k : wkind) (t : Q) (tok : str) : bool :=
  match k with
  | WSrt => ok_hms 44 t tok
  | WDfxp | WMerged => ok_hms 46 t tok
  | WVtt => ok_vtt t tok
  | WMdvd => ok_frames t tok
  end.

(* one written cue conveys a caption: both tokens denote its start and end *)
Definition tok_ok (k : wkind) (c : caption) (o : str * str) : bool :=
  ok_token k (c_start c) (fst o) && ok_token k (c_end c) (snd o).

(* exactly one cue per caption, in order (DFXP, MicroDVD) *)
Fixpoint ok_each (k : wkind) (caps : list caption) (obs : list (str * str)) : bool :=
  match caps, obs with
  | [], [] => true
  | c :: ct, o :: ot => tok_ok k c o && ok_each k ct ot
  | _, _ => false
  end.

(* "MAY merge consecutive captions with identical start and end into one cue" (SRT, legacy, single-position):
   every cue conveys the caption it stands for and may absorb following captions with the same span - any
   merging from none to the maximal runs is accepted.  pending = the caption the last cue stands for *)
Fixpoint ok_may_merge (k : wkind) (pending : option caption) (caps : list caption) (obs : list (str * str)) : bool :=
  match caps with
  | [] => match obs with [] => true | _ => false end
  | c :: ct =>
      (match pending with Some p => span_eqb p c && ok_may_merge k (Some p) ct obs | None => false end)
      || (match obs with o :: ot => tok_ok k c o && ok_may_merge k (Some c) ct ot | [] => false end)
  end.

(* "MAY split a caption ... into several cues with the same times" (WebVTT): one or more cues per caption,
   each with the caption's times *)
Fixpoint ok_may_split (k : wkind) (obs : list (str * str)) (caps : list caption) {struct obs} : bool :=
  match obs with
  | [] => match caps with [] => true | _ => false end
  | o :: ot =>
      match caps with
      | [] => false
      | c :: ct => tok_ok k c o && (ok_may_split k ot ct || ok_may_split k ot (c :: ct))
      end
  end.

Definition ok_cues (k : wkind) (caps : list caption) (obs : list (str * str)) : bool :=
  match k with
  | WSrt | WMerged => ok_may_merge k None caps obs
  | WVtt => ok_may_split k obs caps
  | WDfxp | WMdvd => ok_each k caps obs
  end.

(* ---- SAMI sync rule ------------------------------------------------------------------ *)
(* observed: the syncs carrying a paragraph of the language, in document order:
   (start attribute, paragraph is blank).  Each cue has a sync at its start ms; after every
   cue but the last, the end is conveyed by a blank sync at the end ms unless the next cue
   starts at that ms; nothing follows the last cue. *)
Fixpoint ok_sami_ms (caps : list (Q * Q)) (obs : list (Z * bool)) : bool :=
  match caps, obs with
  | [], [] => true
  | (s, e) :: ct, (v, false) :: ot =>
      acc_ms s v &&
      match ct with
      | [] => match ot with [] => true | _ => false end
      | _ :: _ =>
          match ot with
          | (w, true) :: ((v', false) :: _) as ot' => acc_ms e w && negb (v' =? w) && ok_sami_ms ct ot'
          | (v', false) :: _ => acc_ms e v' && ok_sami_ms ct ot
          | _ => false
          end
      end
  | _, _ => false
  end.

Definition ok_sami (caps : list (Q * Q)) (obs : list (str * bool)) : bool :=
  match opt_map (fun o => match parse_int (fst o) with Some v => Some (v, snd o) | None => None end) obs with
  | Some l => ok_sami_ms caps l
  | None => false
  end.

(* the sync rule as a function: what the statement prescribes for one language, as (ms, is blank) pairs *)
Fixpoint sami_rule (caps : list (Q * Q)) : list (Z * bool) :=
  match caps with
  | [] => []
  | (s, e) :: t =>
      (floor_ms s, false)
      :: (match t with
          | (s', _) :: _ => if floor_ms s' =? floor_ms e then [] else [(floor_ms e, true)]
          | [] => []
          end) ++ sami_rule t
  end.

(* times inside the writers' domain: 0 <= t and t rounds to a microsecond below 24 h *)
Definition time_ok (t : Q) : bool := Qle_bool 0 t && negb (Qle_bool (172799999999 # 2) t).
Definition caps_time_ok (caps : list caption) : bool :=
  forallb (fun c => time_ok (c_start c) && time_ok (c_end c)) caps.
