(* C19 specification, from the property statement only. *)
From Coq Require Import List ZArith QArith Qabs Bool.
From PV Require Import lib.Sx lib.Result model.Base.
Import ListNotations.

(* --- timing adjustment: t -> t*skew+off, drop exactly the negative starts, keep order --- *)
Definition spec_retime (skew off : Q) (c : caption) : caption :=
  mkCap (c_start c * skew + off) (c_end c * skew + off) (c_nodes c).

Definition spec_adjust_lang (skew off : Q) (caps : list caption) : list caption :=
  filter (fun c => Qle_bool 0 (c_start c)) (map (spec_retime skew off) caps).

(* --- merging: maximal runs of consecutive captions with identical (start, end) ---------- *)
Definition span_eqb (a b : caption) : bool :=
  Qeq_bool (c_start a) (c_start b) && Qeq_bool (c_end a) (c_end b).

(* runs: group consecutive captions with the same span; each group is non-empty *)
Fixpoint runs (caps : list caption) : list (caption * list caption) :=
  match caps with
  | [] => []
  | c :: t =>
      match runs t with
      | (d, ds) :: rest => if span_eqb c d then (c, d :: ds) :: rest else (c, []) :: (d, ds) :: rest
      | [] => [(c, [])]
      end
  end.

Fixpoint join_nodes (first : list Z) (others : list (list Z)) : list Z :=
  match others with
  | [] => first
  | o :: t => first ++ brk :: join_nodes o t
  end.

Definition join_run (r : caption * list caption) : caption :=
  let (c, cs) := r in mkCap (c_start c) (c_end c) (join_nodes (c_nodes c) (map c_nodes cs)).

Definition spec_merge_lang (caps : list caption) : list caption := map join_run (runs caps).

(* --- decidable comparison used by the oracle ------------------------------------------- *)
Fixpoint zlist_eqb (a b : list Z) : bool :=
  match a, b with
  | [], [] => true
  | x :: a', y :: b' => Z.eqb x y && zlist_eqb a' b'
  | _, _ => false
  end.

(* |a - b| <= 2^-10 *)
Definition q_close (a b : Q) : bool := Qle_bool (Qabs (a - b)) (1 # 1024).

Definition cap_close (a b : caption) : bool :=
  q_close (c_start a) (c_start b) && q_close (c_end a) (c_end b) && zlist_eqb (c_nodes a) (c_nodes b).
Definition cap_exact (a b : caption) : bool :=
  Qeq_bool (c_start a) (c_start b) && Qeq_bool (c_end a) (c_end b) && zlist_eqb (c_nodes a) (c_nodes b).

Fixpoint list_rel {A} (r : A -> A -> bool) (a b : list A) : bool :=
  match a, b with
  | [], [] => true
  | x :: a', y :: b' => r x y && list_rel r a' b'
  | _, _ => false
  end.

(* ---- adjust: the decidable oracle ----------------------------------------------------------
   Values are compared within 2^-10 us (binary64 rounding of t*skew+offset; the model is exact).
   MEMBERSHIP is decided per caption by the sign of the exact x = start*skew+offset, except where
   binary64 cannot decide it either: fl(fl(t*skew)+off) has the sign of x unless |x| <= |t*skew|*2^-53,
   so a caption whose exact new start is non-zero and within  slack = (|t*skew| + |off|) * 2^-50  of zero
   may legitimately be kept or dropped ("optional"). Every other caption, and every other language of
   the same set, is still judged (no whole-case exclusion). *)
Definition slack (skew off : Q) (c : caption) : Q :=
  ((Qabs (c_start c * skew) + Qabs off) * (1 # 1125899906842624))%Q.

Definition optional (skew off : Q) (c : caption) : bool :=
  let x := (c_start c * skew + off)%Q in
  negb (Qeq_bool x 0) && Qle_bool (Qabs x) (slack skew off c).

(* walk the input list in order against the observed list *)
Fixpoint match_adjust (skew off : Q) (caps obs : list caption) : bool :=
  match caps with
  | [] => match obs with [] => true | _ => false end
  | c :: t =>
      let x := spec_retime skew off c in
      let keep := match obs with
                  | o :: obs' => cap_close x o && match_adjust skew off t obs'
                  | [] => false
                  end in
      if optional skew off c then keep || match_adjust skew off t obs
      else if Qle_bool 0 (c_start x) then keep
      else match_adjust skew off t obs
  end.

Definition ok_adjust (skew off : Q) (input obs : list (list caption)) : bool :=
  list_rel (match_adjust skew off) input obs.

(* information for the evidence: does the case contain an optional caption? *)
Definition near_threshold (skew off : Q) (caps : list caption) : bool := existsb (optional skew off) caps.

(* statement-level equivalence of captions (times as rationals, nodes equal) *)
Definition cap_equiv (a b : caption) : Prop :=
  c_start a == c_start b /\ c_end a == c_end b /\ c_nodes a = c_nodes b.

(* ---- merge ---------------------------------------------------------------------------------- *)
(* neighbouring runs have different spans: with "members share the head's span" this is maximality *)
Fixpoint adjacent_distinct (rs : list (caption * list caption)) : Prop :=
  match rs with
  | r1 :: ((r2 :: _) as t) => span_eqb (fst r1) (fst r2) = false /\ adjacent_distinct t
  | _ => True
  end.

(* no two consecutive captions share their span: nothing to merge *)
Fixpoint no_adjacent_equal (caps : list caption) : bool :=
  match caps with
  | a :: ((b :: _) as t) => negb (span_eqb a b) && no_adjacent_equal t
  | _ => true
  end.

(* the domain of the merge clauses: every caption has at least one node (Caption() enforces it) *)
Definition nodes_nonempty (caps : list caption) : bool :=
  forallb (fun c => match c_nodes c with [] => false | _ => true end) caps.

(* obs1 = merge(input), obs2 = merge(merge(input)) *)
Definition ok_merge (input : list (list caption)) (obs1 obs2 : result (list (list caption))) : bool :=
  match obs1, obs2 with
  | Ok o1, Ok o2 =>
      list_rel (fun i o => list_rel cap_exact (spec_merge_lang i) o) input o1
      && list_rel (list_rel cap_exact) o1 o2
  | _, _ => false
  end.

(* ---- wave 7 ----------------------------------------------------------------------------------- *)
(* a caption survives adjust(skew, off): its new start is not negative *)
Definition survives (sk off : Q) (c : caption) : bool := Qle_bool 0 (c_start c * sk + off).

(* exactly which inputs merge_concurrent_captions rejects: merge() builds Caption(.., new_nodes) for EVERY maximal run
   (also a run of one), and Caption() refuses an empty node list; new_nodes is empty iff every caption of the run has
   an empty node list (only possible when a node list was emptied after construction). *)
Definition run_caps (r : caption * list caption) : list caption := fst r :: snd r.
Definition no_nodes (c : caption) : bool := match c_nodes c with [] => true | _ => false end.
Definition run_rejected (r : caption * list caption) : bool := forallb no_nodes (run_caps r).
Definition merge_accepts (caps : list caption) : bool := forallb (fun r => negb (run_rejected r)) (runs caps).

(* the joined caption of a run in general: leading captions without nodes contribute nothing, not even a line break;
   from the first caption with nodes on it is join_nodes (a later empty node list still gets its line break) *)
Fixpoint drop_empty (ls : list (list Z)) : list (list Z) :=
  match ls with [] :: t => drop_empty t | _ => ls end.
Definition join_nodes_gen (ls : list (list Z)) : list Z :=
  match drop_empty ls with [] => [] | f :: o => join_nodes f o end.
Definition join_run_gen (r : caption * list caption) : caption :=
  mkCap (c_start (fst r)) (c_end (fst r)) (join_nodes_gen (map c_nodes (run_caps r))).
Definition spec_merge_gen (caps : list caption) : list caption := map join_run_gen (runs caps).

(* "all their nodes in order": the text of a language = the node values of its captions in order, line breaks left out *)
Definition lang_text (caps : list caption) : list Z :=
  filter (fun n => negb (Z.eqb n brk)) (concat (map c_nodes caps)).
