(* C19 specification, from the property statement only. *)
From Coq Require Import List ZArith QArith Qabs Bool.
From PV Require Import lib.Sx lib.Result model.Base.
Import ListNotations.

(* --- timing adjustment: t -> t*skew+off, drop exactly the negative starts, keep order --- *)
Definition spec_retime (skew off : Q) (c : caption) : caption :=
  mkCap (c_start c * skew + off) (c_end c * skew + off) (c_nodes c).

Definition spec_adjust_lang (skew off : Q) (caps : list caption) : list caption :=
  filter (fun c => Qle_bool 0 (c_start c)) (map (spec_retime skew off) caps).

(* --- merging: maximal runs of consecutive captions with identical (start, end) ---------- *)
Definition span_eqb (a b : caption) : bool :=
  Qeq_bool (c_start a) (c_start b) && Qeq_bool (c_end a) (c_end b).

(* runs: group consecutive captions with the same span; each group is non-empty *)
Fixpoint runs (caps : list caption) : list (caption * list caption) :=
  match caps with
  | [] => []
  | c :: t =>
      match runs t with
      | (d, ds) :: rest => if span_eqb c d then (c, d :: ds) :: rest else (c, []) :: (d, ds) :: rest
      | [] => [(c, [])]
      end
  end.

Fixpoint join_nodes (first : list Z) (others : list (list Z)) : list Z :=
  match others with
  | [] => first
  | o :: t => first ++ brk :: join_nodes o t
  end.

Definition join_run (r : caption * list caption) : caption :=
  let (c, cs) := r in mkCap (c_start c) (c_end c) (join_nodes (c_nodes c) (map c_nodes cs)).

Definition spec_merge_lang (caps : list caption) : list caption := map join_run (runs caps).

(* --- decidable comparison used by the oracle ------------------------------------------- *)
Fixpoint zlist_eqb (a b : list Z) : bool :=
  match a, b with
  | [], [] => true
  | x :: a', y :: b' => Z.eqb x y && zlist_eqb a' b'
  | _, _ => false
  end.

(* |a - b| <= 2^-10 *)
Definition q_close (a b : Q) : bool := Qle_bool (Qabs (a - b)) (1 # 1024).

Definition cap_close (a b : caption) : bool :=
  q_close (c_start a) (c_start b) && q_close (c_end a) (c_end b) && zlist_eqb (c_nodes a) (c_nodes b).
Definition cap_exact (a b : caption) : bool :=
  Qeq_bool (c_start a) (c_start b) && Qeq_bool (c_end a) (c_end b) && zlist_eqb (c_nodes a) (c_nodes b).

Fixpoint list_rel {A} (r : A -> A -> bool) (a b : list A) : bool :=
  match a, b with
  | [], [] => true
  | x :: a', y :: b' => r x y && list_rel r a' b'
  | _, _ => false
  end.

(* a caption whose retimed start is within 2^-10 of 0 is "near the threshold": the float
   implementation may legitimately land on either side; such inputs are counted separately *)
Definition near_threshold (skew off : Q) (caps : list caption) : bool :=
  existsb (fun c => Qle_bool (Qabs (c_start c * skew + off)) (1 # 1024) && negb (Qeq_bool (c_start c * skew + off) 0)) caps.

Definition ok_adjust (skew off : Q) (input obs : list (list caption)) : bool :=
  list_rel (fun i o => list_rel cap_close (spec_adjust_lang skew off i) o) input obs.

(* obs1 = merge(input), obs2 = merge(merge(input)) *)
Definition nodes_nonempty (caps : list caption) : bool :=
  forallb (fun c => match c_nodes c with [] => false | _ => true end) caps.

Definition ok_merge (input : list (list caption)) (obs1 obs2 : result (list (list caption))) : bool :=
  match obs1, obs2 with
  | Ok o1, Ok o2 =>
      list_rel (fun i o => list_rel cap_exact (spec_merge_lang i) o) input o1
      && list_rel (list_rel cap_exact) o1 o2
  | _, _ => false
  end.
