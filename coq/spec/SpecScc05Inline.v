(* C05 / C06 wave 7: the load line of pycaption's own SCCWriter - Erase-Displayed-Memory INSIDE the load, before its
   End-Of-Caption:  ENM RCL rows EDM EOC  (control codes single or doubled).  Definitions only.
   `emit_load_w` is what the harness emits for the layout "edm-inline" (request 506). *)
From Coq Require Import List ZArith.
From PV Require Import lib.Sx lib.Str lib.Result model.GenScc model.SccDecoder spec.Spec608 spec.SpecScc05.
Import ListNotations.
Open Scope Z_scope.

(* the words of a load before its display commands *)
Definition load_body (d : bool) (l : load) : list Z :=
  ctl d (ctrl_word 46) ++ ctl d (ctrl_word 32) ++ flat_map (emit_row d) l.
Definition emit_load_w (d : bool) (l : load) : list Z :=
  load_body d l ++ ctl d (ctrl_word 44) ++ ctl d (ctrl_word 47).

(* wave 8: a "quiet" word: any word but RDC, RU2, RU3, RU4, EOC, CR, EDM (in pop-on mode such a word neither reads nor writes
   the display side of the reader state: proofs/SccInlineEdmFacts.frame_tw) *)
Definition quiet (w : Z) : bool :=
  negb ((w =? w_rdc) || (w =? w_ru2) || (w =? w_ru3) || (w =? w_ru4) || (w =? w_eoc) || (w =? w_cr) || (w =? w_edm)).
