(* C15 specification, from the property statement only:
   "reading either raises the line-length error naming each offending line, or returns captions in which
    every line has at most 32 characters; which of the two happens depends only on the line lengths".
   A caption is (start key, text with "\n" between lines). *)
From Coq Require Import List ZArith Bool.
From PV Require Import lib.Sx lib.Str.
Import ListNotations.
Open Scope Z_scope.

Definition spec_lines (text : str) : list str := split_ch 10 text.
Definition spec_long (l : str) : bool := 32 <? Z.of_nat (length l).

(* all offending lines of a caption list, in order *)
Definition offending (caps : list (str * str)) : list str :=
  concat (map (fun c => filter spec_long (spec_lines (snd c))) caps).

(* every line length of a caption list *)
Definition line_lengths (caps : list (str * str)) : list (list nat) :=
  map (fun c => map (@length Z) (spec_lines (snd c))) caps.

(* "the error names line l": the message contains  l - Length <len l>\n  *)
Definition names (msg l : str) : bool :=
  is_infix (l ++ lit " - Length " ++ dec_nonneg (Z.of_nat (length l)) ++ [10]) msg.

(* the weakest reading of "naming each offending line": the message contains the text of the line *)
Definition mentions (msg l : str) : bool := is_infix l msg.

Definition nil_b {A} (l : list A) : bool := match l with [] => true | _ => false end.

(* property oracle: outcome = None (captions returned) or Some message (line-length error) *)
Definition ok_c15 (caps : list (str * str)) (outcome : option str) : bool :=
  match outcome with
  | None => nil_b (offending caps)
  | Some msg => negb (nil_b (offending caps)) && forallb (names msg) (offending caps)
  end.

(* the same with the weakest reading of "naming" (used by the harness: the exact message format is not part of the
   statement) *)
Definition ok_c15_loose (caps : list (str * str)) (outcome : option str) : bool :=
  match outcome with
  | None => nil_b (offending caps)
  | Some msg => negb (nil_b (offending caps)) && forallb (mentions msg) (offending caps)
  end.

(* the decision as a function of the line lengths alone *)
Definition must_raise (lens : list (list nat)) : bool :=
  existsb (existsb (fun n => 32 <? Z.of_nat n)) lens.
