(* C04 (wave 7, round 2): the DFXP statement END TO END ON STRINGS.
   An authored cue is a list of lines; a line is a first word and further (indentation, word) pairs - in the source the
   line is wrapped before every further word (LF + indentation), a consumer shows the wrap as one blank.  A "word" is any
   text without a line feed that does not BEGIN with white space (interior and trailing blanks are allowed): wraps with
   white space at the start of the continuation are the recorded known findings and are outside.
   render_p  : the content of the <p> element - every character escaped the XML way (& < > as references), lines
               separated by <br/>;
   shown_line: what a conformant consumer displays;
   read_p    : strict XML content parser (spec/SpecTextXml.v) -> DFXP reader model (model/TextRead.v dfxp_nodes) ->
               the lines of the caption (node_lines).      Definitions only. *)
From Coq Require Import List ZArith Bool.
From PV Require Import lib.Sx lib.Str model.TextNodes model.TextWrite model.TextRead spec.SpecTextXml.
Import ListNotations.
Open Scope Z_scope.

Definition wline := (str * list (str * str))%type.

Definition raw_line (l : wline) : str := fst l ++ concat (map (fun e => 10 :: fst e ++ snd e) (snd l)).
Definition shown_line (l : wline) : str := fst l ++ concat (map (fun e => 32 :: snd e) (snd l)).

Definition render_p (ls : list wline) : str := join (lit "<br/>") (map (fun l => xml_escape (raw_line l)) ls).

Definition read_p (s : str) : option (list str) :=
  option_map (fun t => node_lines (flat_map (dfxp_nodes true) t)) (content_parse s).

(* the domain *)
Definition text_char (c : Z) : bool := xml_char c && negb (c =? 13).
Definition word_ok (w : str) : bool :=
  match w with c :: _ => negb (is_space c) | [] => false end && forallb text_char w && forallb (fun c => negb (c =? 10)) w.
Definition ind_ok (i : str) : bool := forallb is_space i && forallb text_char i && forallb (fun c => negb (c =? 10)) i.
Definition line_ok (l : wline) : bool :=
  match l with
  | ([], []) => true                                          (* an empty line: consecutive <br/> *)
  | (w, tail) => word_ok w && forallb (fun e => ind_ok (fst e) && word_ok (snd e)) tail
  end.
