(* C11 (wave 7, round 2): conversion chains on the models: payload writer model -> strict XML content parser -> reader
   model, composed.  Definitions only. *)
From Coq Require Import List ZArith Bool.
From PV Require Import lib.Sx lib.Str model.TextNodes model.TextWrite model.TextRead spec.SpecTextXml.
Import ListNotations.
Open Scope Z_scope.

Definition rd_dfxp (s : str) : option (list node) := option_map (flat_map (dfxp_nodes true)) (content_parse s).
Definition rd_sami (s : str) : option (list node) := option_map (flat_map (sami_nodes true)) (content_parse s).

Definition obind {A B} (o : option A) (f : A -> option B) : option B := match o with Some a => f a | None => None end.

(* DFXP document -> SAMI document -> DFXP document, read back (extra = the attribute the single-positioning writer adds) *)
Definition chain_dsd (e1 e2 : str) (ns : list node) : option (list node) :=
  obind (rd_dfxp (dfxp_payload e1 ns)) (fun n1 => obind (rd_sami (sami_payload n1)) (fun n2 => rd_dfxp (dfxp_payload e2 n2))).
(* SAMI -> DFXP -> SAMI *)
Definition chain_sds (e : str) (ns : list node) : option (list node) :=
  obind (rd_sami (sami_payload ns)) (fun n1 => obind (rd_dfxp (dfxp_payload e n1)) (fun n2 => rd_sami (sami_payload n2))).
