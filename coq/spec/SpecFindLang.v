(* C14 specification (wave 7).  The property statement only says that "the language options ... select exactly the named
   language" and its anchor names the mechanism "class/lang attribute -> language" (SAMIParser._find_lang); it does not
   say HOW a paragraph's attributes name a language.  What follows is therefore NOT a quotation of the statement but the
   reading of the code's rule adopted for that anchor (interpretive decisions, listed in meta/C14.json "note"):
   (1) a SAMI paragraph's language comes from its class / lang attributes, none -> the configured default; the FIRST
       attribute of the <P> that names a language decides - an attribute called `lang` (any case) names the two-letter
       cut of its value, an attribute called `class` names the language its class declares in the stylesheet (class
       names compared in lower case) and names nothing when the class is unknown or declares no language; every other
       attribute names nothing.  No attribute names a language, or the named one is empty -> the configured default.
   (2) the single-positioning and legacy DFXP writers show the cues of one language that share (start, end) as ONE
       cue: every maximal run of neighbouring cues with equal (start, end) becomes one cue with that span whose
       content is the contents of the run in order, separated by line breaks.  Languages are not touched.
   Definitions only.  No reference to the model. *)
From Coq Require Import List ZArith Bool.
From PV Require Import lib.Sx lib.Str.
Import ListNotations.
Open Scope Z_scope.

(* ---- (1) language of a paragraph ----------------------------------------------------------------------------- *)
(* the stylesheet as the reader holds it: (lower-cased class name, its `lang` value if it declares one); a class is
   found at its first entry *)
Definition fl_sheet := list (str * option str).
Fixpoint sheet_lookup (c : str) (sheet : fl_sheet) : option (option str) :=
  match sheet with
  | [] => None
  | (k, v) :: t => if str_eqb k c then Some v else sheet_lookup c t
  end.

(* the language ONE attribute names, if it names one *)
Definition attr_names (sheet : fl_sheet) (a : str * str) : option str :=
  if str_eqb (lower (fst a)) (lit "lang") then Some (firstn 2 (snd a))
  else if str_eqb (lower (fst a)) (lit "class")
       then match sheet_lookup (lower (snd a)) sheet with Some (Some l) => Some l | _ => None end
       else None.
Definition silent (sheet : fl_sheet) (a : str * str) : Prop := attr_names sheet a = None.

(* relational: r is the language found on a paragraph with these attributes *)
Definition spec_find_lang (sheet : fl_sheet) (attrs : list (str * str)) (r : option str) : Prop :=
  match r with
  | Some l => exists pre a post, attrs = pre ++ a :: post /\ Forall (silent sheet) pre /\ attr_names sheet a = Some l
  | None => Forall (silent sheet) attrs
  end.

(* decidable: the languages named, in attribute order; the first one is found *)
Definition named_langs (sheet : fl_sheet) (attrs : list (str * str)) : list str :=
  flat_map (fun a => match attr_names sheet a with Some l => [l] | None => [] end) attrs.
Definition ostr_eqb (a b : option str) : bool :=
  match a, b with Some x, Some y => str_eqb x y | None, None => true | _, _ => false end.
Definition ok_find_lang (sheet : fl_sheet) (attrs : list (str * str)) (obs : option str) : bool :=
  ostr_eqb obs (hd_error (named_langs sheet attrs)).
(* the language the paragraph is listed under *)
Definition spec_p_lang (default : str) (sheet : fl_sheet) (attrs : list (str * str)) : str :=
  match hd_error (named_langs sheet attrs) with
  | Some (c :: l) => c :: l
  | _ => default
  end.
(* a run of <P> start tags: obs = (language of every paragraph, languages in order of first appearance) *)
Fixpoint first_seen (seen ls : list str) : list str :=
  match ls with
  | [] => []
  | l :: t => if existsb (str_eqb l) seen then first_seen seen t else l :: first_seen (l :: seen) t
  end.
Fixpoint strs_eqb (a b : list str) : bool :=
  match a, b with
  | [], [] => true
  | x :: a', y :: b' => str_eqb x y && strs_eqb a' b'
  | _, _ => false
  end.
Definition ok_p_langs (default : str) (sheet : fl_sheet) (ps : list (list (str * str))) (obs_tags obs_langs : list str) : bool :=
  let want := map (spec_p_lang default sheet) ps in
  strs_eqb obs_tags want && strs_eqb obs_langs (first_seen [] want).

(* ---- (2) runs of equal (start, end) ---------------------------------------------------------------------------- *)
(* a cue: start, end, content = nodes in order, None = a line break, Some t = a text node *)
Notation mnode := (option str) (only parsing).
Notation mcue := (Z * Z * list (option str))%type (only parsing).
Definition mc_start (c : mcue) : Z := fst (fst c).
Definition mc_end (c : mcue) : Z := snd (fst c).
Definition mc_nodes (c : mcue) : list mnode := snd c.
Definition same_span (a b : mcue) : bool := (mc_start a =? mc_start b) && (mc_end a =? mc_end b).

(* contents separated by a line break *)
Definition join_nodes (a b : list mnode) : list mnode := a ++ None :: b.
(* right-to-left grouping: a cue joins the group that follows it when their spans are equal *)
Fixpoint spec_merge (caps : list mcue) : list mcue :=
  match caps with
  | [] => []
  | c :: t =>
      match spec_merge t with
      | m :: r => if same_span c m then (mc_start c, mc_end c, join_nodes (mc_nodes c) (mc_nodes m)) :: r
                  else c :: m :: r
      | [] => [c]
      end
  end.
Definition mset := list (str * list mcue).
Definition spec_merge_set (cs : mset) : mset := map (fun lc => (fst lc, spec_merge (snd lc))) cs.

Definition mnode_eqb (a b : mnode) : bool := ostr_eqb a b.
Fixpoint mnodes_eqb (a b : list mnode) : bool :=
  match a, b with
  | [], [] => true
  | x :: a', y :: b' => mnode_eqb x y && mnodes_eqb a' b'
  | _, _ => false
  end.
Definition mcue_eqb (a b : mcue) : bool := same_span a b && mnodes_eqb (mc_nodes a) (mc_nodes b).
Fixpoint mcues_eqb (a b : list mcue) : bool :=
  match a, b with
  | [], [] => true
  | x :: a', y :: b' => mcue_eqb x y && mcues_eqb a' b'
  | _, _ => false
  end.
Fixpoint mset_eqb (a b : mset) : bool :=
  match a, b with
  | [], [] => true
  | x :: a', y :: b' => str_eqb (fst x) (fst y) && mcues_eqb (snd x) (snd y) && mset_eqb a' b'
  | _, _ => false
  end.
(* the texts of a cue list in order, line breaks dropped: what must be conserved per language *)
Definition texts_of (caps : list mcue) : list str :=
  flat_map (fun c => flat_map (fun n => match n with Some t => [t] | None => [] end) (mc_nodes c)) caps.
(* neighbouring cues have different spans *)
Fixpoint spans_differ (caps : list mcue) : bool :=
  match caps with
  | a :: ((b :: _) as t) => negb (same_span a b) && spans_differ t
  | _ => true
  end.
(* the oracle on what the implementation returned: same languages in the same order; per language the texts are
   conserved in order, no two neighbouring cues share a span, and the cue list is the grouping of the input *)
Definition ok_merge (cs obs : mset) : bool :=
  strs_eqb (map fst obs) (map fst cs)
  && mset_eqb obs (spec_merge_set cs)
  && forallb (fun lc => spans_differ (snd lc)) obs.
