(* SpecIso.v - C09 / C10 property oracles, written from the property statements only (definitions only).

   The observation of one operation of a history, as made on the REAL heap by harness/iso_worker.py:
     io_kind      0 build (API), 1 read, 2 write, 3 edit
     io_set       index of the caption set the op creates (build / read) or targets (write / edit)
     io_key       write: identifies (writer class, constructor options, write() keywords)
                  read : identifies (reader class, document, options)
     io_out       write: digest of the returned text, or of the exception class when it raised
     io_pristine  read : digest of the snapshot the same read returns in a pristine process
     io_digests   digest of the deep structural snapshot (types, fields, dict contents and order, list order; object
                  identity ignored) of EVERY caption set alive after the op, in creation order

   ok_* return the list of (operation index, violated clause); [] = the property holds on this history.
     1  C09  a write changed the snapshot of a caption set (its input or any other), also when it raised
     2  C09  two writes with the same writer class/options of sets with the same snapshot returned different text
             (same object again, a fresh object, after other sets were written)
     3  C10  a read changed a caption set returned earlier
     4  C10  a read returned something else than the same read in a pristine process
     5  C10  an edit of one caption set changed another one
     6  C10  building a set through the API changed a set returned by a read *)
From Coq Require Import List ZArith Bool.
Import ListNotations.
Open Scope Z_scope.

(* The oracle is written once, over an arbitrary type D of "digests" with a decidable comparison:
     D = Z           (extracted; sha1 prefixes computed by the harness from the REAL snapshots / outputs)
     D = Store.tree  (proofs/OracleFacts.v: the model's own snapshots; theorem "the model meets the oracle") *)
Section Oracle.
Variable D : Type.
Variable deq : D -> D -> bool.
Variable dnone : D.     (* what an out-of-range set index reads as: for D = Z the value -2, distinct from every digest
                           (>= 0) and from the sentinel -1 the harness uses for "the creating op raised" *)

Record iobs := mkIobs {
  io_kind : Z; io_set : Z; io_key : D; io_out : D; io_pristine : D; io_digests : list D
}.

(* the sets alive before the op are unchanged after it (the op may have appended new ones) *)
Fixpoint prefix_same (before after : list D) : bool :=
  match before, after with
  | [], _ => true
  | x :: ta, y :: tb => deq x y && prefix_same ta tb
  | _ :: _, [] => false
  end.

(* ... except possibly the set with index j *)
Fixpoint prefix_same_but (j : Z) (before after : list D) : bool :=
  match before, after with
  | [], _ => true
  | x :: ta, y :: tb => ((j =? 0) || deq x y) && prefix_same_but (j - 1) ta tb
  | _ :: _, [] => false
  end.

Definition dnth (l : list D) (i : Z) : D := nth (Z.to_nat i) l dnone.

(* seen: (key, digest of the written set, output) of the earlier writes *)
Fixpoint conflicting (key dg out : D) (seen : list (D * D * D)) : bool :=
  match seen with
  | [] => false
  | (k, d, o) :: t => (deq k key && deq d dg && negb (deq o out)) || conflicting key dg out t
  end.

Fixpoint check_hist (c09 c10 : bool) (i : Z) (before : list D) (seen : list (D * D * D)) (l : list iobs)
  : list (Z * Z) :=
  match l with
  | [] => []
  | o :: t =>
      let after := io_digests o in
      let k := io_kind o in
      let here :=
        if k =? 2 then
          (if c09 && negb (prefix_same before after) then [(i, 1)] else []) ++
          (if c09 && conflicting (io_key o) (dnth before (io_set o)) (io_out o) seen then [(i, 2)] else [])
        else if k =? 1 then
          (if c10 && negb (prefix_same before after) then [(i, 3)] else []) ++
          (if c10 && negb (deq (dnth after (io_set o)) (io_pristine o)) then [(i, 4)] else [])
        else if k =? 3 then
          (if c10 && negb (prefix_same_but (io_set o) before after) then [(i, 5)] else [])
        else
          (if c10 && negb (prefix_same before after) then [(i, 6)] else []) in
      let seen' := if k =? 2 then (io_key o, dnth before (io_set o), io_out o) :: seen else seen in
      here ++ check_hist c09 c10 (i + 1) after seen' t
  end.

End Oracle.

Arguments mkIobs {D} _ _ _ _ _ _.
Arguments io_kind {D} _.
Arguments io_set {D} _.
Arguments io_key {D} _.
Arguments io_out {D} _.
Arguments io_pristine {D} _.
Arguments io_digests {D} _.

(* the extracted instance: digests are integers *)
Definition ok_c09 (l : list (iobs Z)) : list (Z * Z) := check_hist Z Z.eqb (-2) true false 0 [] [] l.
Definition ok_c10 (l : list (iobs Z)) : list (Z * Z) := check_hist Z Z.eqb (-2) false true 0 [] [] l.
