(* SpecIso.v - C09 / C10 property oracles, written from the property statements only (definitions only).

   The observation of one operation of a history, as made on the REAL heap by harness/iso_worker.py:
     io_kind      0 build (API), 1 read, 2 write, 3 edit
     io_set       index of the caption set the op creates (build / read) or targets (write / edit)
     io_key       write: identifies (writer class, constructor options, write() keywords)
                  read : identifies (reader class, document, options)
     io_out       write: digest of the returned text, or of the exception class when it raised
     io_pristine  read : digest of the snapshot the same read returns in a pristine process
     io_digests   digest of the deep structural snapshot (types, fields, dict contents and order, list order; object
                  identity ignored) of EVERY caption set alive after the op, in creation order

   ok_* return the list of (operation index, violated clause); [] = the property holds on this history.
     1  C09  a write changed the snapshot of a caption set (its input or any other), also when it raised
     2  C09  two writes with the same writer class/options of sets with the same snapshot returned different text
             (same object again, a fresh object, after other sets were written)
     3  C10  a read changed a caption set returned earlier
     4  C10  a read returned something else than the same read in a pristine process
     5  C10  an edit of one caption set changed another one
     6  C10  building a set through the API changed a set returned by a read *)
From Coq Require Import List ZArith Bool.
Import ListNotations.
Open Scope Z_scope.

Record iobs := mkIobs {
  io_kind : Z; io_set : Z; io_key : Z; io_out : Z; io_pristine : Z; io_digests : list Z
}.

Fixpoint zlist_eqb (a b : list Z) : bool :=
  match a, b with
  | [], [] => true
  | x :: ta, y :: tb => (x =? y) && zlist_eqb ta tb
  | _, _ => false
  end.

(* the sets alive before the op are unchanged after it (the op may have appended new ones) *)
Fixpoint prefix_same (before after : list Z) : bool :=
  match before, after with
  | [], _ => true
  | x :: ta, y :: tb => (x =? y) && prefix_same ta tb
  | _ :: _, [] => false
  end.

(* ... except possibly the set with index j *)
Fixpoint prefix_same_but (j : Z) (before after : list Z) : bool :=
  match before, after with
  | [], _ => true
  | x :: ta, y :: tb => ((j =? 0) || (x =? y)) && prefix_same_but (j - 1) ta tb
  | _ :: _, [] => false
  end.

Definition znth (l : list Z) (i : Z) : Z := nth (Z.to_nat i) l (-1).

(* seen: (key, digest of the written set, output) of the earlier writes *)
Fixpoint conflicting (key dg out : Z) (seen : list (Z * Z * Z)) : bool :=
  match seen with
  | [] => false
  | (k, d, o) :: t => ((k =? key) && (d =? dg) && negb (o =? out)) || conflicting key dg out t
  end.

Fixpoint check_hist (c09 c10 : bool) (i : Z) (before : list Z) (seen : list (Z * Z * Z)) (l : list iobs)
  : list (Z * Z) :=
  match l with
  | [] => []
  | o :: t =>
      let after := io_digests o in
      let k := io_kind o in
      let here :=
        if k =? 2 then
          (if c09 && negb (prefix_same before after) then [(i, 1)] else []) ++
          (if c09 && conflicting (io_key o) (znth before (io_set o)) (io_out o) seen then [(i, 2)] else [])
        else if k =? 1 then
          (if c10 && negb (prefix_same before after) then [(i, 3)] else []) ++
          (if c10 && negb (znth after (io_set o) =? io_pristine o) then [(i, 4)] else [])
        else if k =? 3 then
          (if c10 && negb (prefix_same_but (io_set o) before after) then [(i, 5)] else [])
        else
          (if c10 && negb (prefix_same before after) then [(i, 6)] else []) in
      let seen' := if k =? 2 then (io_key o, znth before (io_set o), io_out o) :: seen else seen in
      here ++ check_hist c09 c10 (i + 1) after seen' t
  end.

Definition ok_c09 (l : list iobs) : list (Z * Z) := check_hist true false 0 [] [] l.
Definition ok_c10 (l : list iobs) : list (Z * Z) := check_hist false true 0 [] [] l.
