(* C20, second sentence: "for every document produced by a pycaption writer from text that does not contain another
   format's marker, detect_format returns the reader of that writer's format".
   Document SHAPES of the four writers that are pure string builders, written from the formats' layouts (not from the
   writer code), with the marker-freeness hypothesis as a decidable predicate on the PIECES the document is assembled
   from (timing lines / frame prefixes / cue texts) - never on the assembled document.  Definitions only.
   "another format's marker" (decision xii): the marker of a format probed BEFORE the writer's own format. *)
From Coq Require Import List ZArith Bool.
From PV Require Import lib.Sx lib.Str lib.Result model.Generated model.Detect.
Import ListNotations.
Open Scope Z_scope.

(* does marker m occur in s (after lowering, for the case-insensitive sniffers)? *)
Definition has (m : str) (lowered : bool) (s : str) : bool := is_infix m (if lowered then u_lower s else s).

Definition before_mdvd : list (str * bool) := [(dfxp_marker, true)].
Definition before_vtt : list (str * bool) := [(dfxp_marker, true)].
Definition before_srt : list (str * bool) := [(dfxp_marker, true); (vtt_marker, false); (sami_marker, true)].
Definition before_scc : list (str * bool) := before_srt.

(* s carries none of the markers ms *)
Definition free (ms : list (str * bool)) (s : str) : bool :=
  forallb (fun mk => negb (has (fst mk) (snd mk) s)) ms.

(* s[:-1] *)
Definition drop_last (s : str) : str := firstn (length s - 1) s.

(* ---- SRT: blocks "index \n timing line \n cue text \n \n", index from 1, last newline removed ---------------- *)
Fixpoint srt_blocks (k : Z) (cues : list (str * str)) : str :=
  match cues with
  | [] => []
  | (tl, txt) :: t => dec_z k ++ [10] ++ tl ++ [10] ++ txt ++ [10; 10] ++ srt_blocks (k + 1) t
  end.
Definition srt_document (cues : list (str * str)) : str := drop_last (srt_blocks 1 cues).

Definition no_linebreak (s : str) : bool := forallb (fun c => negb (is_linebreak c)) s.
Definition srt_cue_ok (c : str * str) : bool := free before_srt (fst c) && free before_srt (snd c).
(* the first timing line is one line and carries the arrow *)
Definition srt_first_ok (tl : str) : bool := no_linebreak tl && is_infix srt_arrow tl.

(* ---- MicroDVD: lines "{start}{end}text \n" --------------------------------------------------------------- *)
Definition frames_prefix (d1 d2 : str) : str := [123] ++ d1 ++ [125; 123] ++ d2 ++ [125].
Definition ascii_digits (d : str) : bool := match d with [] => false | _ => forallb is_digit d end.
Definition mdvd_document (cues : list (str * str)) : str :=
  concat (map (fun c => fst c ++ snd c ++ [10]) cues).
Definition frame_char (c : Z) : bool := is_digit c || (c =? 123) || (c =? 125).
Definition mdvd_cue_ok (c : str * str) : bool := forallb frame_char (fst c) && free before_mdvd (snd c).

(* ---- WebVTT: the header line, an empty line, then blocks separated by newlines ------------------------------ *)
Definition vtt_document (pieces : list str) : str := vtt_marker ++ [10; 10] ++ join [10] pieces.

(* ---- SCC: the header line, an empty line, then lines "timecode TAB hex words" ------------------------------ *)
Definition scc_body_char (c : Z) : bool :=
  is_digit c || ((97 <=? c) && (c <=? 102)) || (c =? 58) || (c =? 59) || (c =? 9) || (c =? 32) || (c =? 10).
Definition scc_document (body : str) : str := scc_header ++ [10; 10] ++ body.
