(* C06: the property oracle with the tolerance the statement supports. The statement fixes instants at frame
   resolution ("the instant its End-Of-Caption code is transmitted"); a reader that rounded to whole microseconds would
   still satisfy it, so the oracle accepts |observed - exact| <= 1/2 microsecond. (The finer 2^-10 us comparison of
   spec/SpecSccTime.v is kept for the model correspondence.) Runs of identical spans form one screen on BOTH sides. *)
From Coq Require Import List ZArith QArith Qabs Bool.
From PV Require Import lib.Sx lib.Str lib.Result spec.SpecSccTime.
Import ListNotations.

Definition q_close_us (a b : Q) : bool := Qle_bool (Qabs (a - b)) (1 # 2).
Definition span_close_us (a b : Q * Q) : bool := q_close_us (fst a) (fst b) && q_close_us (snd a) (snd b).
Fixpoint list_close_us (a b : list (Q * Q)) : bool :=
  match a, b with
  | [], [] => true
  | x :: a', y :: b' => span_close_us x y && list_close_us a' b'
  | _, _ => false
  end.
Definition res_close_us (e o : result (list (Q * Q))) : bool :=
  match e, o with
  | Ok a, Ok b => list_close_us (screens a) (screens b)
  | Err x, Err y => Z.eqb (err_code x) (err_code y)
  | _, _ => false
  end.
Definition ok_c06_us (evs : list ev) (obs : result (list (Q * Q))) : bool :=
  res_close_us (expected_with thr_lo evs) obs || res_close_us (expected_with thr_hi evs) obs.

(* The statement leaves a gap of exactly five frames to either reading ("a gap shorter than five frames ... is closed"):
   the choice is per GAP, not per program. Each expected span carries both admissible ends. *)
Fixpoint zip3 (l h : list (Q * Q)) : list (Q * Q * Q) :=
  match l, h with
  | (s, el) :: l', (_, eh) :: h' => (s, el, eh) :: zip3 l' h'
  | _, _ => []
  end.
Definition triple_eqb (a b : Q * Q * Q) : bool :=
  Qeq_bool (fst (fst a)) (fst (fst b)) && Qeq_bool (snd (fst a)) (snd (fst b)) && Qeq_bool (snd a) (snd b).
Fixpoint screens3 (l : list (Q * Q * Q)) : list (Q * Q * Q) :=
  match l with
  | [] => []
  | x :: t => match t with
              | y :: _ => if triple_eqb x y then screens3 t else x :: screens3 t
              | [] => [x]
              end
  end.
Fixpoint match3 (e : list (Q * Q * Q)) (o : list (Q * Q)) : bool :=
  match e, o with
  | [], [] => true
  | (s, el, eh) :: e', (os, oe) :: o' =>
      q_close_us s os && (q_close_us el oe || q_close_us eh oe) && match3 e' o'
  | _, _ => false
  end.
Definition ok_c06_gap (evs : list ev) (obs : result (list (Q * Q))) : bool :=
  let raw := raw_spans evs None in
  let l := close_gaps thr_lo raw in
  let h := close_gaps thr_hi raw in
  match obs with
  | Ok o => negb (existsb flash l && existsb flash h)
            && match l with [] => false | _ => match3 (screens3 (zip3 l h)) (screens o) end
  | Err e => if Z.eqb (err_code e) (err_code ETiming) then existsb flash l || existsb flash h
             else if Z.eqb (err_code e) (err_code ENoCaptions) then match l with [] => true | _ => false end
             else false
  end.
