(* C12: statement-level definition used by the region theorems (moved from proofs/ after the w7 audit).
   created regions: the layouts of the caption set that have any of origin / extent / padding / alignment, one per class
   of equal layouts (first representative), the default region's class excluded.  Definitions only. *)
From Coq Require Import List ZArith QArith Bool.
From PV Require Import lib.Sx lib.Str lib.Result model.Geometry model.Positioning.
Import ListNotations.

Definition created_keys (ls : list (option layout)) : list layout := filter has_region (collect_regions ls).
