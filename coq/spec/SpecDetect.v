(* C20 specification, written from the property statement only.
   Observation: for a string s, the six readers' own detect outcomes in the DOCUMENTED order
   DFXP, MicroDVD, WebVTT, SAMI, SRT, SCC, and the outcome of detect_format. *)
From Coq Require Import List ZArith Bool.
From PV Require Import lib.Sx lib.Result.
Import ListNotations.
Open Scope Z_scope.

Definition documented_order : list Z := [0; 1; 2; 3; 4; 5].

(* first reader (by position in the documented order) whose own detect accepted *)
Fixpoint first_accepting (ids : list Z) (ds : list (result bool)) : option Z :=
  match ids, ds with
  | i :: ids', Ok true :: _ => Some i
  | _ :: ids', _ :: ds' => first_accepting ids' ds'
  | _, _ => None
  end.

Definition no_raise {A} (r : result A) : bool := match r with Ok _ => true | Err _ => false end.

Definition opt_z_eqb (a b : option Z) : bool :=
  match a, b with
  | None, None => true
  | Some x, Some y => x =? y
  | _, _ => false
  end.

(* ok_detect nonempty ds df : the property for one string *)
Definition ok_detect (nonempty : bool) (ds : list (result bool)) (df : result (option Z)) : bool :=
  if nonempty then
    (length ds =? 6)%nat && forallb no_raise ds &&
    match df with
    | Ok o => opt_z_eqb o (first_accepting documented_order ds)
    | Err _ => false
    end
  else
    match df with Err ENoCaptions => true | _ => false end.
