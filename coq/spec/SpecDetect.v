(* C20 specification, written from the property statement only.
   Observation: for a string s, the six readers' own detect outcomes in the DOCUMENTED order
   DFXP, MicroDVD, WebVTT, SAMI, SRT, SCC, and the outcome of detect_format. *)
From Coq Require Import List ZArith Bool.
From PV Require Import lib.Sx lib.Result.
Import ListNotations.
Open Scope Z_scope.

Definition documented_order : list Z := [0; 1; 2; 3; 4; 5].

(* first reader (by position in the documented order) whose own detect accepted; a reader whose detect
   raised did not accept *)
Fixpoint first_accepting (ids : list Z) (ds : list (result bool)) : option Z :=
  match ids, ds with
  | i :: ids', Ok true :: _ => Some i
  | _ :: ids', _ :: ds' => first_accepting ids' ds'
  | _, _ => None
  end.

Definition no_raise {A} (r : result A) : bool := match r with Ok _ => true | Err _ => false end.

Definition opt_z_eqb (a b : option Z) : bool :=
  match a, b with
  | None, None => true
  | Some x, Some y => x =? y
  | _, _ => false
  end.

(* ok_detect nonempty ds df : the property for one string - exactly the statement:
   non-empty: format detection (df) does not raise and returns nothing / the first accepting reader;
   empty: it raises the documented no-captions error.
   What the six sniffers do on their own when format detection does not consult them (a later sniffer raising on a
   string an earlier reader claimed; any sniffer on the empty string) is not constrained by the statement. *)
Definition ok_detect (nonempty : bool) (ds : list (result bool)) (df : result (option Z)) : bool :=
  if nonempty then
    (length ds =? 6)%nat &&
    match df with
    | Ok o => opt_z_eqb o (first_accepting documented_order ds)
    | Err _ => false
    end
  else
    match df with Err ENoCaptions => true | _ => false end.

(* the stronger reading of the round-0 oracle (every sniffer total on non-empty strings): a theorem about the
   model and counted information about the implementation, no longer demanded of it *)
Definition all_sniffers_total (ds : list (result bool)) : bool := forallb no_raise ds.
