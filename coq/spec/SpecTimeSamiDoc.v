(* C02 (wave 5): what a reader of a written SAMI body sees for ONE language (class): every paragraph of that class in
   DOCUMENT ORDER, as (start ms of the enclosing <sync>, is it the blank paragraph &nbsp;).  The body type is the one of
   model/Langs.v (a list of syncs, each with its start and its (class, text) paragraphs). *)
From Coq Require Import List ZArith QArith Qround Bool.
From PV Require Import lib.Sx lib.Str model.Langs.
Import ListNotations.
Open Scope Z_scope.

Definition is_blank_par (x : str) : bool := str_eqb x nbsp_text.

Definition doc_obs (cls : str) (b : body) : list (Z * bool) :=
  flat_map (fun s => map (fun p => (fst s, is_blank_par (snd p))) (filter (fun p => str_eqb (fst p) cls) (snd s))) b.

(* the cues of a language as the statement sees them: exact times in microseconds *)
Definition wspans (caps : list wcue) : list (Q * Q) :=
  map (fun c => (inject_Z (wc_start c), inject_Z (wc_end c))) caps.

(* a timeline in microseconds: lo <= start <= end <= next start ... *)
Fixpoint timeline_us (lo : Z) (caps : list wcue) : Prop :=
  match caps with
  | [] => True
  | c :: t => lo <= wc_start c /\ wc_start c <= wc_end c /\ timeline_us (wc_end c) t
  end.

Definition texts_ok (caps : list wcue) : Prop := forall c, In c caps -> is_blank_par (wc_text c) = false.
