(* C07 specification: a strict well-formedness checker for XML 1.0 element content (the grammar a <p> payload
   lives in) as a character-level state machine, written from the XML 1.0 Recommendation:
     content   ::= (CharData | Reference | element)*      element ::= EmptyElemTag | STag content ETag
     STag      ::= LT Name (S Attribute)* S? GT           Attribute ::= Name Eq AttValue
     AttValue  ::= QUOT ([^<&QUOT] | Reference)* QUOT  |  APOS ([^<&APOS] | Reference)* APOS
     Reference ::= AMP (amp|lt|gt|quot|apos) SEMI | AMP # [0-9]+ SEMI | AMP #x [0-9a-fA-F]+ SEMI  (must denote a Char)
   plus: matching end tags, no attribute twice in a tag, every character an XML Char, and - CharData ::= [^<&]* minus
   ([^<&]* RSQB RSQB GT [^<&]* ) - no ']]>' in character data (a '>' is refused when the two characters decoded just
   before it are ']]'; this also refuses the legal but exotic spelling with character references for the brackets).
   Names are restricted to ASCII name characters (enough for every name the writers emit).
   The machine also returns the parsed events (text characters decoded, attributes decoded).
   The document-level oracle (references resolve, ids unique, ...) is ok_refs below. *)
From Coq Require Import List ZArith Bool.
From PV Require Import lib.Sx lib.Str.
Import ListNotations.
Open Scope Z_scope.

Definition is_xml_char (c : Z) : bool :=
  (c =? 9) || (c =? 10) || (c =? 13) || ((32 <=? c) && (c <=? 55295)) || ((57344 <=? c) && (c <=? 65533))
  || ((65536 <=? c) && (c <=? 1114111)).
Definition is_xml_space (c : Z) : bool := (c =? 32) || (c =? 9) || (c =? 10) || (c =? 13).
Definition is_name_start (c : Z) : bool :=
  ((65 <=? c) && (c <=? 90)) || ((97 <=? c) && (c <=? 122)) || (c =? 95) || (c =? 58).
Definition is_name_char (c : Z) : bool :=
  is_name_start c || ((48 <=? c) && (c <=? 57)) || (c =? 45) || (c =? 46).

(* ---- references ------------------------------------------------------------------------------------------ *)
Definition hex_digit_val (c : Z) : option Z :=
  if (48 <=? c) && (c <=? 57) then Some (c - 48)
  else if (97 <=? c) && (c <=? 102) then Some (c - 87)
  else if (65 <=? c) && (c <=? 70) then Some (c - 55) else None.
Fixpoint num_val (base : Z) (s : str) (acc : Z) : option Z :=
  match s with
  | [] => Some acc
  | c :: t => match hex_digit_val c with
              | Some d => if d <? base then num_val base t (acc * base + d) else None
              | None => None
              end
  end.
(* the text between '&' and ';' *)
Definition decode_ref (name : str) : option Z :=
  if str_eqb name (lit "amp") then Some 38
  else if str_eqb name (lit "lt") then Some 60
  else if str_eqb name (lit "gt") then Some 62
  else if str_eqb name (lit "quot") then Some 34
  else if str_eqb name (lit "apos") then Some 39
  else match name with
       | 35 :: 120 :: (d :: ds) => match num_val 16 (d :: ds) 0 with
                                   | Some v => if is_xml_char v then Some v else None | None => None end
       | 35 :: (d :: ds) => match num_val 10 (d :: ds) 0 with
                            | Some v => if is_xml_char v then Some v else None | None => None end
       | _ => None
       end.

(* ---- character data and attribute values: text with references -------------------------------------------- *)
(* value so far (newest first), and the reference being read (newest first) if any *)
Inductive vst := VNormal (acc : str) | VRef (acc : str) (name : str).

Definition vstep (st : vst) (c : Z) : option vst :=
  match st with
  | VNormal acc =>
      if c =? 38 then Some (VRef acc [])
      else if c =? 60 then None
      else if is_xml_char c then Some (VNormal (c :: acc)) else None
  | VRef acc name =>
      if c =? 59 then match decode_ref (rev name) with Some ch => Some (VNormal (ch :: acc)) | None => None end
      else if (length name <? 10)%nat then Some (VRef acc (c :: name)) else None
  end.

Fixpoint vrun (st : vst) (s : str) : option vst :=
  match s with
  | [] => Some st
  | c :: t => match vstep st c with Some st' => vrun st' t | None => None end
  end.

(* a complete attribute value with its quotes: the decoded value *)
Definition attr_parse (s : str) : option str :=
  match s with
  | q :: t =>
      if (q =? 34) || (q =? 39) then
        match rev t with
        | q' :: body_rev =>
            if (q' =? q) && negb (existsb (Z.eqb q) body_rev) then
              match vrun (VNormal []) (rev body_rev) with
              | Some (VNormal acc) => Some (rev acc)
              | _ => None
              end
            else None
        | [] => None
        end
      else None
  | [] => None
  end.
(* ']]>' must not occur in character data (XML 1.0 production [14]) *)
Fixpoint has_cdata_end (s : str) : bool :=
  match s with
  | [] => false
  | c :: t => ((c =? 93) && match t with d :: e :: _ => (d =? 93) && (e =? 62) | _ => false end) || has_cdata_end t
  end.
(* character data (no markup): the decoded text *)
Definition text_parse (s : str) : option str :=
  if has_cdata_end s then None else
  match vrun (VNormal []) s with Some (VNormal acc) => Some (rev acc) | _ => None end.

(* ---- element content ------------------------------------------------------------------------------------------ *)
Inductive xev :=
| EText (c : Z)
| EOpen (name : str) (attrs : list (str * str))
| EClose (name : str).

Inductive mode :=
| MContent (v : vst)                 (* character data; v tracks a pending reference *)
| MLt                                (* after '<' *)
| MOpenName (n : str)                (* start-tag name, newest first *)
| MInTag (ws : bool)                 (* inside a start tag, after the name or an attribute; ws = whitespace seen *)
| MAttrName (n : str)
| MAfterName                         (* whitespace between attribute name and '=' *)
| MAfterEq
| MAttrVal (q : Z) (v : vst)
| MSlash                             (* '/' of an empty-element tag *)
| MCloseName (n : str)
| MCloseWs (n : str).

Record pst := mkPst { p_stack : list str; p_ev : list xev; p_tag : str; p_attrs : list (str * str);
                      p_aname : str; p_mode : mode }.

Definition flush_text (v : vst) : option (list xev) :=
  match v with VNormal acc => Some (map EText acc) | VRef _ _ => None end.
(* the character data read so far ends in ']]' *)
Definition after_brackets (v : vst) : bool :=
  match v with VNormal (a :: b :: _) => (a =? 93) && (b =? 93) | _ => false end.

Definition xstep (s : pst) (c : Z) : option pst :=
  let '(mkPst stack ev tag attrs aname m) := s in
  match m with
  | MContent v =>
      if c =? 60 then
        match flush_text v with Some te => Some (mkPst stack (te ++ ev) [] [] [] MLt) | None => None end
      else if (c =? 62) && after_brackets v then None
      else match vstep v c with Some v' => Some (mkPst stack ev tag attrs aname (MContent v')) | None => None end
  | MLt =>
      if c =? 47 then Some (mkPst stack ev [] [] [] (MCloseName []))
      else if is_name_start c then Some (mkPst stack ev [] [] [] (MOpenName [c])) else None
  | MOpenName n =>
      if is_name_char c then Some (mkPst stack ev [] [] [] (MOpenName (c :: n)))
      else if is_xml_space c then Some (mkPst stack ev (rev n) [] [] (MInTag true))
      else if c =? 62 then Some (mkPst (rev n :: stack) (EOpen (rev n) [] :: ev) [] [] [] (MContent (VNormal [])))
      else if c =? 47 then Some (mkPst stack ev (rev n) [] [] MSlash)
      else None
  | MInTag ws =>
      if is_xml_space c then Some (mkPst stack ev tag attrs [] (MInTag true))
      else if c =? 62 then
        Some (mkPst (tag :: stack) (EOpen tag (rev attrs) :: ev) [] [] [] (MContent (VNormal [])))
      else if c =? 47 then Some (mkPst stack ev tag attrs [] MSlash)
      else if ws && is_name_start c then Some (mkPst stack ev tag attrs [] (MAttrName [c]))
      else None
  | MAttrName n =>
      if is_name_char c then Some (mkPst stack ev tag attrs [] (MAttrName (c :: n)))
      else if c =? 61 then
        if existsb (fun a => str_eqb (fst a) (rev n)) attrs then None
        else Some (mkPst stack ev tag attrs (rev n) MAfterEq)
      else if is_xml_space c then
        if existsb (fun a => str_eqb (fst a) (rev n)) attrs then None
        else Some (mkPst stack ev tag attrs (rev n) MAfterName)
      else None
  | MAfterName =>
      if is_xml_space c then Some s
      else if c =? 61 then Some (mkPst stack ev tag attrs aname MAfterEq) else None
  | MAfterEq =>
      if is_xml_space c then Some s
      else if (c =? 34) || (c =? 39) then Some (mkPst stack ev tag attrs aname (MAttrVal c (VNormal []))) else None
  | MAttrVal q v =>
      if c =? q then
        match v with
        | VNormal acc => Some (mkPst stack ev tag ((aname, rev acc) :: attrs) [] (MInTag false))
        | VRef _ _ => None
        end
      else match vstep v c with Some v' => Some (mkPst stack ev tag attrs aname (MAttrVal q v')) | None => None end
  | MSlash =>
      if c =? 62 then Some (mkPst stack (EClose tag :: EOpen tag (rev attrs) :: ev) [] [] [] (MContent (VNormal [])))
      else None
  | MCloseName n =>
      if is_name_char c then Some (mkPst stack ev [] [] [] (MCloseName (c :: n)))
      else if is_xml_space c then (match n with [] => None | _ => Some (mkPst stack ev [] [] [] (MCloseWs (rev n))) end)
      else if c =? 62 then
        match stack with
        | top :: rest => if str_eqb top (rev n) then Some (mkPst rest (EClose top :: ev) [] [] [] (MContent (VNormal []))) else None
        | [] => None
        end
      else None
  | MCloseWs n =>
      if is_xml_space c then Some s
      else if c =? 62 then
        match stack with
        | top :: rest => if str_eqb top n then Some (mkPst rest (EClose top :: ev) [] [] [] (MContent (VNormal []))) else None
        | [] => None
        end
      else None
  end.

Fixpoint xrun (s : pst) (inp : str) : option pst :=
  match inp with
  | [] => Some s
  | c :: t => match xstep s c with Some s' => xrun s' t | None => None end
  end.

Definition pst0 : pst := mkPst [] [] [] [] [] (MContent (VNormal [])).

(* content_parse: the events of a well-formed content string (all elements closed), else None *)
Definition content_parse (inp : str) : option (list xev) :=
  match xrun pst0 inp with
  | Some (mkPst [] ev _ _ _ (MContent v)) =>
      match flush_text v with Some te => Some (rev (te ++ ev)) | None => None end
  | _ => None
  end.

(* ---- document-level consistency (on what a strict XML parser extracted from the output) ------------------- *)
Fixpoint nodup_str (l : list str) : bool :=
  match l with [] => true | x :: t => negb (existsb (str_eqb x) t) && nodup_str t end.
Definition count_str (x : str) (l : list str) : nat := length (filter (str_eqb x) l).

(* ids: all xml:id values; style_ids / region_ids: those of <style> / <region> in the head;
   style_refs / region_refs: the style= / region= attribute values in the body *)
Definition ok_refs (ids style_ids region_ids style_refs region_refs : list str) : Z :=
  if negb (nodup_str ids) then 1
  else if negb (forallb (fun r => Nat.eqb (count_str r style_ids) 1) style_refs) then 2
  else if negb (forallb (fun r => Nat.eqb (count_str r region_ids) 1) region_refs) then 3
  else if negb (forallb (fun r => existsb (str_eqb r) region_refs) region_ids) then 4
  else 0.
