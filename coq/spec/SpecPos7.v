(* wave 7 (C13): what DFXPWriter(write_inline_positioning=True) writes inline on each element: the attributes of the layout
   get_positioning_info picks (node, else caption, else language, else SET level) - for every <div>, every <p> and every
   <span> whose style node has a layout.  Definitions only. *)
From Coq Require Import List ZArith QArith Bool.
From PV Require Import lib.Sx lib.Str lib.Result model.Geometry model.Positioning.
Import ListNotations.
Open Scope Z_scope.

Definition inline_cap (g l : option layout) (c : ncap) : list (option layout) :=
  dfxp_choice g l (nc_layout c) None
  :: flat_map (fun n => if style_start (n_kind n) && opt_layout_truthy (n_layout n)
                        then [dfxp_choice g l (nc_layout c) (n_layout n)] else []) (nc_nodes c).
Definition inline_lang (g : option layout) (lg : nlang) : list (option layout) :=
  dfxp_choice g (nl_layout lg) None None :: flat_map (inline_cap g (nl_layout lg)) (nl_caps lg).
Definition inline_layouts (s : nset) : list (option layout) := flat_map (inline_lang (ns_layout s)) (ns_langs s).
