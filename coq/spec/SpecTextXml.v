(* Strict XML 1.0 content parser, written from the XML Recommendation (not from pycaption).
   Input: the content of an element (what stands between <p ...> and </p>).
   Accepted: character data over XML Char without '<', '&' and without the literal "]]>";
   the five predefined entities and decimal / hexadecimal character references denoting a Char;
   start tags, end tags and empty-element tags with attributes (name = "v" or 'v', no '<' in a value,
   references decoded, no duplicate attribute) over ASCII names; proper nesting.
   Line ends are normalised (CRLF, CR -> LF), attribute white space is normalised to spaces.
   Rejected (None): everything else, including comments / CDATA / PIs / DOCTYPE (never emitted by the writers;
   inputs containing "<!" or "<?" are outside the cross-check with lxml) and non-ASCII names.
   Definitions only. *)
From Coq Require Import List ZArith Bool.
From PV Require Import lib.Sx lib.Str.
Import ListNotations.
Open Scope Z_scope.

Inductive xtok : Type :=
| TkText (s : str)
| TkOpen (name : str) (attrs : list (str * str))
| TkClose (name : str)
| TkEmpty (name : str) (attrs : list (str * str)).

Inductive xnode : Type :=
| XText (s : str)
| XElem (name : str) (attrs : list (str * str)) (kids : list xnode).

(* ---- character classes ------------------------------------------------------ *)
Definition xml_char (c : Z) : bool :=
  (c =? 9) || (c =? 10) || (c =? 13) || ((32 <=? c) && (c <=? 55295))
  || ((57344 <=? c) && (c <=? 65533)) || ((65536 <=? c) && (c <=? 1114111)).
Definition xml_ws (c : Z) : bool := (c =? 32) || (c =? 9) || (c =? 10) || (c =? 13).
Definition ascii_letter (c : Z) : bool := ((65 <=? c) && (c <=? 90)) || ((97 <=? c) && (c <=? 122)).
Definition name_start (c : Z) : bool := ascii_letter c || (c =? 95) || (c =? 58).
Definition name_char (c : Z) : bool := name_start c || is_digit c || (c =? 45) || (c =? 46).

Definition is_hex (c : Z) : bool := is_digit c || ((65 <=? c) && (c <=? 70)) || ((97 <=? c) && (c <=? 102)).
Definition hex_digit_val (c : Z) : Z :=
  if is_digit c then c - 48 else if (97 <=? c) then c - 87 else c - 55.
Fixpoint hex_val_acc (s : str) (acc : Z) : Z :=
  match s with [] => acc | c :: t => hex_val_acc t (acc * 16 + hex_digit_val c) end.
Fixpoint dec_val_acc (s : str) (acc : Z) : Z :=
  match s with [] => acc | c :: t => dec_val_acc t (acc * 10 + (c - 48)) end.

Definition nonempty_b (s : str) : bool := match s with [] => false | _ => true end.

(* the text between '&' and ';' -> the code point it denotes *)
Definition ref_value (name : str) : option Z :=
  if str_eqb name (lit "amp") then Some 38
  else if str_eqb name (lit "lt") then Some 60
  else if str_eqb name (lit "gt") then Some 62
  else if str_eqb name (lit "quot") then Some 34
  else if str_eqb name (lit "apos") then Some 39
  else match name with
       | 35 :: 120 :: ds =>
           if nonempty_b ds && forallb is_hex ds then
             let v := hex_val_acc ds 0 in if xml_char v then Some v else None
           else None
       | 35 :: ds =>
           if nonempty_b ds && forallb is_digit ds then
             let v := dec_val_acc ds 0 in if xml_char v then Some v else None
           else None
       | _ => None
       end.

(* ---- attribute values and tags (functions of the complete tag text) ---------- *)
(* value text between the quotes -> normalised, references decoded.
   ref = Some acc while inside a reference (acc reversed) *)
Fixpoint attr_value (s : str) (ref : option str) (acc : str) : option str :=
  match s with
  | [] => match ref with None => Some (rev acc) | Some _ => None end
  | c :: t =>
      match ref with
      | Some r =>
          if c =? 59 then
            match ref_value (rev r) with Some v => attr_value t None (v :: acc) | None => None end
          else attr_value t (Some (c :: r)) acc
      | None =>
          if c =? 60 then None
          else if c =? 38 then attr_value t (Some []) acc
          else if negb (xml_char c) then None
          else if c =? 13 then attr_value (match t with 10 :: t' => t' | _ => t end) None (32 :: acc)
          else if (c =? 10) || (c =? 9) then attr_value t None (32 :: acc)
          else attr_value t None (c :: acc)
      end
  end.

Definition parse_name0 (s : str) : option (str * str) :=
  match s with
  | c :: _ => if name_start c then Some (take_while name_char s, drop_while name_char s) else None
  | [] => None
  end.

(* Namespaces in XML: a name is an NCName or prefix:local with non-empty parts; the prefixes in scope inside a
   TTML <p> are tts, ttm and xml (what the observer declares on the wrapping element) *)
Definition known_prefixes : list str := [lit "tts"; lit "ttm"; lit "xml"].
Definition qname_ok (n : str) : bool :=
  match split_ch 58 n with
  | [_] => true
  | [p; l] => nonempty_b p && nonempty_b l && existsb (str_eqb p) known_prefixes
              && (match l with c :: _ => name_start c | [] => false end)
  | _ => false
  end.

Definition parse_name (s : str) : option (str * str) :=
  match parse_name0 s with
  | Some (n, r) => if qname_ok n then Some (n, r) else None
  | None => None
  end.

Fixpoint take_until (q : Z) (s : str) : str :=
  match s with [] => [] | c :: t => if c =? q then [] else c :: take_until q t end.
Fixpoint drop_until (q : Z) (s : str) : option str :=   (* rest after the first q *)
  match s with [] => None | c :: t => if c =? q then Some t else drop_until q t end.

Definition has_key (k : str) (l : list (str * str)) : bool := existsb (fun p => str_eqb (fst p) k) l.

(* s = what follows the element name.  Returns (attributes, is_empty_element) *)
Fixpoint parse_attrs (fuel : nat) (s : str) (acc : list (str * str)) : option (list (str * str) * bool) :=
  match fuel with
  | O => None
  | S f =>
    let s1 := drop_while xml_ws s in
    match s1 with
    | [] => Some (rev acc, false)
    | [47] => Some (rev acc, true)
    | c :: _ =>
        (* an attribute must be separated from what precedes it by white space *)
        if (length s1 =? length s)%nat then None else
        match parse_name s1 with
        | None => None
        | Some (k, r) =>
            match drop_while xml_ws r with
            | 61 :: r1 =>
                match drop_while xml_ws r1 with
                | q :: r2 =>
                    if (q =? 34) || (q =? 39) then
                      match drop_until q r2, attr_value (take_until q r2) None [] with
                      | Some r3, Some v =>
                          if has_key k acc then None else parse_attrs f r3 ((k, v) :: acc)
                      | _, _ => None
                      end
                    else None
                | [] => None
                end
            | _ => None
            end
        end
    end
  end.

(* body = the text between '<' and '>' *)
Definition parse_tag (body : str) : option xtok :=
  match body with
  | 47 :: t =>
      match parse_name t with
      | Some (n, r) => if forallb xml_ws r then Some (TkClose n) else None
      | None => None
      end
  | _ =>
      match parse_name body with
      | Some (n, r) =>
          match parse_attrs (S (length r)) r [] with
          | Some (a, true) => Some (TkEmpty n a)
          | Some (a, false) => Some (TkOpen n a)
          | None => None
          end
      | None => None
      end
  end.

(* ---- tokenizer: one character per step ---------------------------------------- *)
Inductive tmode : Type :=
| MText (nbr : nat) (cr : bool)      (* character data; nbr = literal ']' just seen; cr = previous char was CR *)
| MRef (acc : str)                   (* after '&' (reversed) *)
| MTag (acc : str) (q : Z).          (* after '<' (reversed raw text); q = open quote or 0 *)

Record tstate := mkT { ts_mode : tmode; ts_cur : str; ts_out : list xtok }.   (* cur, out reversed *)

Definition flush (cur : str) (out : list xtok) : list xtok :=
  match cur with [] => out | _ => TkText (rev cur) :: out end.

(* lenient = HTML-style character data: the literal "]]>" is not an error (used only as the stand-in for the
   HTML parser in C04; the strict XML parser is tstep = tstep_gen false) *)
Definition tstep_gen (lenient : bool) (st : tstate) (c : Z) : option tstate :=
  match ts_mode st with
  | MText nbr cr =>
      if c =? 60 then Some (mkT (MTag [] 0) [] (flush (ts_cur st) (ts_out st)))
      else if c =? 38 then Some (mkT (MRef []) (ts_cur st) (ts_out st))
      else if negb (xml_char c) then None
      else if (c =? 62) && (2 <=? nbr)%nat && negb lenient then None
      else if c =? 13 then Some (mkT (MText 0 true) (10 :: ts_cur st) (ts_out st))
      else if (c =? 10) && cr then Some (mkT (MText 0 false) (ts_cur st) (ts_out st))
      else Some (mkT (MText (if c =? 93 then S nbr else 0) false) (c :: ts_cur st) (ts_out st))
  | MRef acc =>
      if c =? 59 then
        match ref_value (rev acc) with
        | Some v => Some (mkT (MText 0 false) (v :: ts_cur st) (ts_out st))
        | None => None
        end
      else if name_char c || (c =? 35) then Some (mkT (MRef (c :: acc)) (ts_cur st) (ts_out st))
      else None
  | MTag acc q =>
      if q =? 0 then
        if c =? 62 then
          match parse_tag (rev acc) with
          | Some tk => Some (mkT (MText 0 false) [] (tk :: ts_out st))
          | None => None
          end
        else if c =? 60 then None
        else if (c =? 34) || (c =? 39) then Some (mkT (MTag (c :: acc) c) [] (ts_out st))
        else Some (mkT (MTag (c :: acc) 0) [] (ts_out st))
      else if c =? q then Some (mkT (MTag (c :: acc) 0) [] (ts_out st))
      else if c =? 60 then None
      else Some (mkT (MTag (c :: acc) q) [] (ts_out st))
  end.

Definition tstep := tstep_gen false.

Fixpoint trun_gen (lenient : bool) (st : tstate) (s : str) : option tstate :=
  match s with
  | [] => Some st
  | c :: t => match tstep_gen lenient st c with Some st' => trun_gen lenient st' t | None => None end
  end.

Fixpoint trun (st : tstate) (s : str) : option tstate :=
  match s with
  | [] => Some st
  | c :: t => match tstep st c with Some st' => trun st' t | None => None end
  end.

Definition t_init : tstate := mkT (MText 0 false) [] [].
Definition t_finish (st : tstate) : option (list xtok) :=
  match ts_mode st with
  | MText _ _ => Some (rev (flush (ts_cur st) (ts_out st)))
  | _ => None
  end.

Definition xtokens (s : str) : option (list xtok) :=
  match trun t_init s with Some st => t_finish st | None => None end.

(* ---- tree builder ------------------------------------------------------------ *)
Fixpoint xbuild (toks : list xtok) (stack : list (str * list (str * str) * list xnode)) (cur : list xnode)
  : option (list xnode) :=
  match toks with
  | [] => match stack with [] => Some (rev cur) | _ => None end
  | TkText s :: t => xbuild t stack (XText s :: cur)
  | TkEmpty n a :: t => xbuild t stack (XElem n a [] :: cur)
  | TkOpen n a :: t => xbuild t ((n, a, cur) :: stack) []
  | TkClose n :: t =>
      match stack with
      | (n', a, prev) :: st' => if str_eqb n n' then xbuild t st' (XElem n a (rev cur) :: prev) else None
      | [] => None
      end
  end.

(* HTML-style stand-in (lenient about "]]>") *)
Definition content_parse_html (s : str) : option (list xnode) :=
  match trun_gen true t_init s with
  | Some st => match t_finish st with Some toks => xbuild toks [] [] | None => None end
  | None => None
  end.

Definition content_parse (s : str) : option (list xnode) :=
  match xtokens s with Some toks => xbuild toks [] [] | None => None end.

(* ---- what a consumer displays: text, <br> = line break, other elements transparent --- *)
Inductive piece : Type := PText (s : str) | PBr.

Fixpoint xpieces (x : xnode) : list piece :=
  match x with
  | XText s => [PText s]
  | XElem n _ kids => if str_eqb n (lit "br") then [PBr] else flat_map xpieces kids
  end.

Fixpoint piece_lines_aux (ps : list piece) (cur : str) : list str :=
  match ps with
  | [] => [cur]
  | PText s :: t => piece_lines_aux t (cur ++ s)
  | PBr :: t => cur :: piece_lines_aux t []
  end.
Definition xlines (l : list xnode) : list str := piece_lines_aux (flat_map xpieces l) [].

(* the same from the token stream (used by the theorems; equal to xlines on a tree built from the tokens) *)
Definition tok_pieces (toks : list xtok) : list piece :=
  flat_map (fun tk => match tk with
                      | TkText s => [PText s]
                      | TkEmpty n _ => if str_eqb n (lit "br") then [PBr] else []
                      | TkOpen n _ => if str_eqb n (lit "br") then [PBr] else []
                      | TkClose _ => []
                      end) toks.
