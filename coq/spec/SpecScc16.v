(* C16 specification, from the property statement only.
   "each displayable character transmitted appears exactly once, in transmission order, across the returned
    captions, with the text of each transmitted row kept together. Captions are ordered by start with start < end,
    and each caption ends exactly when the next one begins."
   Input: the transmitted rows (their displayable characters). Observation: captions (start, end, text), the text of
   a caption having "\n" between its lines. *)
From Coq Require Import List ZArith QArith Qabs Bool.
From PV Require Import lib.Sx lib.Str lib.Result.
Import ListNotations.
Open Scope Z_scope.

Definition obs_cap : Type := (Q * Q * str)%type.
Definition oc_start (c : obs_cap) : Q := fst (fst c).
Definition oc_end (c : obs_cap) : Q := snd (fst c).
Definition oc_text (c : obs_cap) : str := snd c.

Definition nonempty_s (s : str) : bool := match s with [] => false | _ => true end.
Definition obs_lines (obs : list obs_cap) : list str :=
  concat (map (fun c => filter nonempty_s (split_ch 10 (oc_text c))) obs).

(* offsets at which the pieces of a partition end *)
Fixpoint bounds (ls : list str) (acc : Z) : list Z :=
  match ls with
  | [] => []
  | l :: t => (acc + Z.of_nat (length l)) :: bounds t (acc + Z.of_nat (length l))
  end.

(* every character once and in order; no row is split over two lines *)
Definition ok_text (rows : list str) (obs : list obs_cap) : bool :=
  str_eqb (concat rows) (concat (obs_lines obs))
  && forallb (fun b => existsb (Z.eqb b) (bounds rows 0)) (bounds (obs_lines obs) 0).

Definition q_near (a b : Q) : bool := Qle_bool (Qabs (a - b)) (1 # 1024).
Definition same_span (a b : obs_cap) : bool := Qeq_bool (oc_start a) (oc_start b) && Qeq_bool (oc_end a) (oc_end b).

(* ordered by start, start < end, each screen ends when the next begins (captions with identical times = one screen) *)
Fixpoint ok_chain (obs : list obs_cap) : bool :=
  match obs with
  | [] => true
  | a :: t =>
      negb (Qle_bool (oc_end a) (oc_start a))
      && match t with
         | b :: _ => (same_span a b || (q_near (oc_end a) (oc_start b) && negb (Qle_bool (oc_start b) (oc_start a))))
         | [] => true
         end
      && ok_chain t
  end.

Definition ok_c16 (rows : list str) (obs : result (list obs_cap)) : bool :=
  match obs with
  | Ok caps => ok_text rows caps && ok_chain caps
  | Err _ => false
  end.

(* captions may share (start, end) only when they were cut out of ONE displayed buffer (rows accumulated without a
   flush in between): the number of distinct screens equals the number of buffers the program displays *)
Fixpoint count_screens (obs : list obs_cap) : nat :=
  match obs with
  | [] => O
  | a :: t => match t with
              | b :: _ => if same_span a b then count_screens t else S (count_screens t)
              | [] => 1%nat
              end
  end.
Definition ok_c16_screens (rows : list str) (nbuffers : Z) (obs : result (list obs_cap)) : bool :=
  ok_c16 rows obs && match obs with Ok caps => Z.of_nat (count_screens caps) =? nbuffers | Err _ => false end.
