(* C01 specification, from the property statement and the grammars of the five formats only:
   abstract timestamps (numeric fields + zero padding + fraction digits), their exact
   denotation in Q (seconds), the renderer to concrete strings / documents, and the
   expected observation: floor (instant * 10^6) microseconds per non-empty cue, in order.
   Definitions only. *)
From Coq Require Import List ZArith QArith Qround Bool.
From PV Require Import lib.Sx lib.Str lib.Result lib.Dec.
Import ListNotations.
Open Scope Z_scope.

(* whole microseconds of an instant given in seconds: sub-microsecond remainder dropped *)
Definition us (q : Q) : Z := Qfloor (q * 1000000).

Definition secs (h m s : Z) : Z := h * 3600 + m * 60 + s.

Fixpoint pos10 (n : nat) : positive :=
  match n with O => 1%positive | S k => (10 * pos10 k)%positive end.

(* value of the digit string d1..dk read after a decimal point *)
Definition frac_q (ds : list Z) : Q := digits_num ds # pos10 (length ds).

Definition pairs_eqb (a b : list (Z * Z)) : bool :=
  (length a =? length b)%nat &&
  forallb (fun p => (fst (fst p) =? fst (snd p)) && (snd (fst p) =? snd (snd p))) (combine a b).

(* the property oracle shared by all formats: the reader returned exactly the expected
   (start, end) list - same length, same order, exact integers *)
Definition ok_times (expected : list (Z * Z)) (obs : result (list (Z * Z))) : bool :=
  match obs with Ok l => pairs_eqb expected l | Err _ => false end.

Definition nl (crlf : bool) : str := if crlf then [13; 10] else [10].
Definition arrow : str := lit " --> ".

(* ============================== SRT ========================================== *)
(* hh:mm:ss[,mmm]  hours: any digit count (pad extra zeros); fraction absent or 3 digits *)
Record srt_stamp := mkSrt { sr_pad : nat; sr_h : Z; sr_m : Z; sr_s : Z; sr_ms : option Z }.

Definition srt_instant (t : srt_stamp) : Q :=
  inject_Z (secs (sr_h t) (sr_m t) (sr_s t)) + (match sr_ms t with Some f => f | None => 0 end # 1000).

Definition srt_stamp_dom (t : srt_stamp) : bool :=
  (0 <=? sr_h t) && (0 <=? sr_m t) && (sr_m t <? 60) && (0 <=? sr_s t) && (sr_s t <? 60)
  && match sr_ms t with Some f => (0 <=? f) && (f <? 1000) | None => true end.

Definition srt_render_stamp (t : srt_stamp) : str :=
  padded (sr_pad t) (sr_h t) ++ 58 :: two (sr_m t) ++ 58 :: two (sr_s t)
  ++ match sr_ms t with Some f => 44 :: three f | None => [] end.

Record srt_cue := mkSrtCue { sc_idx : Z; sc_t0 : srt_stamp; sc_t1 : srt_stamp;
                             sc_lines : list str; sc_gap : nat (* extra blank lines *) }.

Definition render_lines (crlf : bool) (ls : list str) : str := flat_map (fun l => l ++ nl crlf) ls.

Definition srt_render_cue (crlf : bool) (c : srt_cue) : str :=
  dec_nonneg (sc_idx c) ++ nl crlf
  ++ srt_render_stamp (sc_t0 c) ++ arrow ++ srt_render_stamp (sc_t1 c) ++ nl crlf
  ++ render_lines crlf (sc_lines c)
  ++ concat (repeat (nl crlf) (S (sc_gap c))).

Definition srt_render (crlf : bool) (cues : list srt_cue) : str := flat_map (srt_render_cue crlf) cues.

(* a line of a document: no LF, no CR (every other character, U+2028 and VT included, is text) *)
Definition no_linebreak (l : str) : bool := forallb (fun c => negb ((c =? 10) || (c =? 13))) l.
Definition visible_line (l : str) : bool := match strip l with [] => false | _ => true end.
Definition text_line_ok (l : str) : bool := no_linebreak l && visible_line l.

Definition srt_cue_dom (c : srt_cue) : bool :=
  (0 <=? sc_idx c) && srt_stamp_dom (sc_t0 c) && srt_stamp_dom (sc_t1 c)
  && forallb text_line_ok (sc_lines c)
  && match sc_lines c with [] => false | _ => true end.   (* a well-formed SRT cue has text *)

Definition srt_expected (cues : list srt_cue) : list (Z * Z) :=
  flat_map (fun c => match sc_lines c with
                     | [] => []
                     | _ => [(us (srt_instant (sc_t0 c)), us (srt_instant (sc_t1 c)))]
                     end) cues.

(* ============================== WebVTT ======================================= *)
(* [hh+:]mm:ss.ttt *)
Record vtt_stamp := mkVtt { vt_h : option (nat * Z); vt_m : Z; vt_s : Z; vt_ms : Z }.

Definition vtt_instant (t : vtt_stamp) : Q :=
  inject_Z (secs (match vt_h t with Some (_, h) => h | None => 0 end) (vt_m t) (vt_s t)) + (vt_ms t # 1000).

Definition vtt_stamp_dom (t : vtt_stamp) : bool :=
  match vt_h t with Some (_, h) => 0 <=? h | None => true end
  && (0 <=? vt_m t) && (vt_m t <? 60) && (0 <=? vt_s t) && (vt_s t <? 60)
  && (0 <=? vt_ms t) && (vt_ms t <? 1000).

Definition vtt_render_stamp (t : vtt_stamp) : str :=
  match vt_h t with Some (k, h) => padded k h ++ [58] | None => [] end
  ++ two (vt_m t) ++ 58 :: two (vt_s t) ++ 46 :: three (vt_ms t).

(* the instant moved by the configured shift (milliseconds, any sign) *)
Definition vtt_shifted (shift_ms : Z) (t : vtt_stamp) : Q := vtt_instant t + (shift_ms # 1000).

(* a cue block: lines the reader must ignore before it (cue identifier, NOTE / STYLE / REGION blocks, stray
   text - anything without "-->"), the timing line with blanks or tabs around the arrow, optional settings,
   the text lines, one or more blank lines *)
Record vtt_cue := mkVttCue { vc_pre : list str; vc_t0 : vtt_stamp; vc_t1 : vtt_stamp;
                             vc_ws1 : str; vc_ws2 : str;
                             vc_settings : option str; vc_lines : list str; vc_gap : nat }.

Definition blank_run (w : str) : bool :=
  match w with [] => false | _ => forallb (fun c => (c =? 32) || (c =? 9)) w end.

Definition vtt_render_cue (crlf : bool) (c : vtt_cue) : str :=
  render_lines crlf (vc_pre c)
  ++ vtt_render_stamp (vc_t0 c) ++ vc_ws1 c ++ lit "-->" ++ vc_ws2 c ++ vtt_render_stamp (vc_t1 c)
  ++ match vc_settings c with Some s => 32 :: s | None => [] end ++ nl crlf
  ++ render_lines crlf (vc_lines c)
  ++ concat (repeat (nl crlf) (S (vc_gap c))).

Definition vtt_render (crlf : bool) (cues : list vtt_cue) : str :=
  lit "WEBVTT" ++ nl crlf ++ nl crlf ++ flat_map (vtt_render_cue crlf) cues.

Definition no_arrow (l : str) : bool := negb (is_infix (lit "-->") l).

Definition vtt_cue_dom (c : vtt_cue) : bool :=
  vtt_stamp_dom (vc_t0 c) && vtt_stamp_dom (vc_t1 c)
  && forallb (fun l => text_line_ok l && no_arrow l) (vc_lines c)
  && match vc_lines c with [] => false | _ => true end
  && forallb (fun l => no_linebreak l && no_arrow l) (vc_pre c)
  && match vc_settings c with Some s => no_linebreak s && no_arrow s | None => true end
  && blank_run (vc_ws1 c) && blank_run (vc_ws2 c).

Definition vtt_expected (shift_ms : Z) (cues : list vtt_cue) : list (Z * Z) :=
  flat_map (fun c => match vc_lines c with
                     | [] => []
                     | _ => [(us (vtt_shifted shift_ms (vc_t0 c)), us (vtt_shifted shift_ms (vc_t1 c)))]
                     end) cues.

(* cue order required by the strict reader: start <= end, starts non-decreasing *)
Fixpoint vtt_sorted_from (shift_ms : Z) (lo : Z) (cues : list vtt_cue) : bool :=
  match cues with
  | [] => true
  | c :: t =>
      let s := us (vtt_shifted shift_ms (vc_t0 c)) in
      let e := us (vtt_shifted shift_ms (vc_t1 c)) in
      (s <=? e) && (lo <=? s) && vtt_sorted_from shift_ms (match vc_lines c with [] => lo | _ => s end) t
  end.

(* ============================== DFXP / TTML ================================== *)
Inductive clock_tail := NoFrac | Frac (ds : list Z) | Frames (ff : Z).
Inductive metric := Mh | Mm | Ms | Mms | Mf.
Inductive texpr :=
| Clock (pad : nat) (h m s : Z) (tail : clock_tail)
| Offset (pad : nat) (ip : Z) (fr : list Z) (mt : metric).

Definition tail_q (t : clock_tail) : Q :=
  match t with NoFrac => 0 # 1 | Frac ds => frac_q ds | Frames ff => ff # 30 end.

(* seconds per unit; frames at the TTML default of 30 per second *)
Definition metric_q (m : metric) : Q :=
  match m with Mh => 3600 # 1 | Mm => 60 # 1 | Ms => 1 # 1 | Mms => 1 # 1000 | Mf => 1 # 30 end.

Definition texpr_instant (e : texpr) : Q :=
  match e with
  | Clock _ h m s t => inject_Z (secs h m s) + tail_q t
  | Offset _ ip fr mt => (inject_Z ip + frac_q fr) * metric_q mt
  end.

Definition texpr_dom (e : texpr) : bool :=
  match e with
  | Clock _ h m s t =>
      (0 <=? h) && (0 <=? m) && (m <? 60) && (0 <=? s) && (s <? 60)
      && match t with
         | NoFrac => true
         | Frac ds => digits_ok ds && negb (Nat.eqb (length ds) 0)
         | Frames ff => (0 <=? ff) && (ff <? 30)
         end
  | Offset _ ip fr _ => (0 <=? ip) && digits_ok fr
  end.

Definition metric_str (m : metric) : str :=
  match m with Mh => lit "h" | Mm => lit "m" | Ms => lit "s" | Mms => lit "ms" | Mf => lit "f" end.

Definition texpr_render (e : texpr) : str :=
  match e with
  | Clock k h m s t =>
      padded k h ++ 58 :: two m ++ 58 :: two s
      ++ match t with NoFrac => [] | Frac ds => 46 :: digits_str ds | Frames ff => 58 :: two ff end
  | Offset k ip fr mt =>
      padded k ip ++ match fr with [] => [] | _ => 46 :: digits_str fr end ++ metric_str mt
  end.

(* a <p>: begin, and either end or dur. Each time expression is converted on its own
   (sub-microsecond remainder dropped), end = begin + dur in whole microseconds. *)
Record dfxp_p := mkP { p_begin : texpr; p_is_dur : bool; p_close : texpr }.

Definition dfxp_p_dom (p : dfxp_p) : bool := texpr_dom (p_begin p) && texpr_dom (p_close p).

Definition dfxp_p_expected (p : dfxp_p) : Z * Z :=
  let b := us (texpr_instant (p_begin p)) in
  (b, if p_is_dur p then b + us (texpr_instant (p_close p)) else us (texpr_instant (p_close p))).

(* the other admissible reading of begin+dur: the exact sum floored once *)
Definition dfxp_p_expected_alt (p : dfxp_p) : Z * Z :=
  let b := us (texpr_instant (p_begin p)) in
  (b, if p_is_dur p then us (texpr_instant (p_begin p) + texpr_instant (p_close p))
      else us (texpr_instant (p_close p))).

(* start exact; end one of the two readings *)
Fixpoint pairs_alt_eqb (a b obs : list (Z * Z)) : bool :=
  match a, b, obs with
  | [], [], [] => true
  | x :: a', y :: b', o :: obs' =>
      (fst o =? fst x) && ((snd o =? snd x) || (snd o =? snd y)) && pairs_alt_eqb a' b' obs'
  | _, _, _ => false
  end.
Definition ok_times_alt (e1 e2 : list (Z * Z)) (obs : result (list (Z * Z))) : bool :=
  match obs with Ok l => pairs_alt_eqb e1 e2 l | Err _ => false end.

Definition dfxp_p_attrs (p : dfxp_p) : option str * option str * option str :=
  (Some (texpr_render (p_begin p)),
   if p_is_dur p then None else Some (texpr_render (p_close p)),
   if p_is_dur p then Some (texpr_render (p_close p)) else None).

(* ============================== SAMI ========================================= *)
(* the <p> elements of one language in document order: sync start in ms (with padding),
   and whether the paragraph has visible text (a blank one is an explicit end marker) *)
Record sami_p := mkSp { sp_pad : nat; sp_ms : Z; sp_text : bool }.

Definition sami_render_start (p : sami_p) : str := padded (sp_pad p) (sp_ms p).

(* sync times strictly increasing, non-negative *)
Fixpoint sami_incr_from (lo : Z) (ps : list (Z * bool)) : bool :=
  match ps with
  | [] => true
  | (ms, _) :: t => (lo <? ms) && sami_incr_from ms t
  end.
Definition sami_dom (ps : list (Z * bool)) : bool := sami_incr_from (-1) ps.

(* every cue lasts until the next sync of its language; the last one four seconds *)
Fixpoint sami_expected (ps : list (Z * bool)) : list (Z * Z) :=
  match ps with
  | [] => []
  | (ms, txt) :: rest =>
      let e := match rest with (ms', _) :: _ => ms' * 1000 | [] => (ms + 4000) * 1000 end in
      (if txt then [(ms * 1000, e)] else []) ++ sami_expected rest
  end.

(* ============================== MicroDVD ===================================== *)
(* declared frame rate: decimal literal ip[.fr] read as an exact rational; default 25 *)
Record fps_lit := mkFps { fp_pad : nat; fp_ip : Z; fp_fr : list Z }.
Definition fps_q (f : option fps_lit) : Q :=
  match f with Some f => inject_Z (fp_ip f) + frac_q (fp_fr f) | None => 25 # 1 end.
Definition fps_dom (f : option fps_lit) : bool :=
  match f with
  | Some f => (0 <=? fp_ip f) && digits_ok (fp_fr f) && (0 <? fp_ip f * Zpos (pos10 (length (fp_fr f))) + digits_num (fp_fr f))
  | None => true
  end.
Definition fps_render (f : fps_lit) : str :=
  padded (fp_pad f) (fp_ip f) ++ match fp_fr f with [] => [] | ds => 46 :: digits_str ds end.

Definition frame_instant (f : option fps_lit) (n : Z) : Q := inject_Z n / fps_q f.

Record mdvd_cue := mkMc { mc_pad0 : nat; mc_n0 : Z; mc_pad1 : nat; mc_n1 : Z; mc_lines : list str }.

Definition brace (s : str) : str := 123 :: s ++ [125].

Definition mdvd_render_cue (crlf : bool) (c : mdvd_cue) : str :=
  brace (padded (mc_pad0 c) (mc_n0 c)) ++ brace (padded (mc_pad1 c) (mc_n1 c))
  ++ join [124] (mc_lines c) ++ nl crlf.

Definition mdvd_render (crlf : bool) (f : option fps_lit) (cues : list mdvd_cue) : str :=
  match f with Some f => brace (lit "0") ++ brace (lit "0") ++ fps_render f ++ nl crlf | None => [] end
  ++ flat_map (mdvd_render_cue crlf) cues.

Definition mdvd_line_ok (l : str) : bool := no_linebreak l && negb (existsb (Z.eqb 124) l).

(* a cue is never spelled {0}{0} (that spelling is the frame-rate header) *)
Definition mdvd_cue_dom (c : mdvd_cue) : bool :=
  (0 <=? mc_n0 c) && (0 <=? mc_n1 c) && forallb mdvd_line_ok (mc_lines c)
  && negb ((mc_n0 c =? 0) && (mc_n1 c =? 0) && Nat.eqb (mc_pad0 c) 0 && Nat.eqb (mc_pad1 c) 0).

Definition mdvd_nonempty (c : mdvd_cue) : bool := existsb (fun l => negb (str_eqb l [])) (mc_lines c).

Definition mdvd_expected (f : option fps_lit) (cues : list mdvd_cue) : list (Z * Z) :=
  flat_map (fun c => if mdvd_nonempty c
                     then [(us (frame_instant f (mc_n0 c)), us (frame_instant f (mc_n1 c)))]
                     else []) cues.

(* ============ expected captions of whole documents (times and text lines) ============ *)
Definition ecap : Type := (Z * Z * list str)%type.

(* a document without any non-empty cue is refused with CaptionReadNoCaptions *)
Definition read_result (l : list ecap) : result (list ecap) :=
  match l with [] => Err ENoCaptions | _ => Ok l end.

Definition nonempty_lines (ls : list str) : list str := filter (fun l => negb (str_eqb l [])) ls.

Definition srt_expected_caps (cues : list srt_cue) : list ecap :=
  flat_map (fun c => match sc_lines c with
                     | [] => []
                     | ls => [(us (srt_instant (sc_t0 c)), us (srt_instant (sc_t1 c)), ls)]
                     end) cues.

Definition vtt_expected_caps (shift_ms : Z) (cues : list vtt_cue) : list ecap :=
  flat_map (fun c => match vc_lines c with
                     | [] => []
                     | ls => [(us (vtt_shifted shift_ms (vc_t0 c)), us (vtt_shifted shift_ms (vc_t1 c)), ls)]
                     end) cues.

Definition mdvd_expected_caps (f : option fps_lit) (cues : list mdvd_cue) : list ecap :=
  flat_map (fun c => if mdvd_nonempty c
                     then [(us (frame_instant f (mc_n0 c)), us (frame_instant f (mc_n1 c)), nonempty_lines (mc_lines c))]
                     else []) cues.
