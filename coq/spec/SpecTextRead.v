(* C04 specification: abstract inline content of a cue, what a conformant consumer displays for it
   (`display`), and independent serialisers into the five text formats, with a free choice of spelling for
   every character (raw / named reference / decimal / hexadecimal reference), of source line wraps inside text
   (DFXP, SAMI) and of inline tags.  Also: what html.parser is expected to report for the SAMI serialisation
   (`events_of`) and the tree BeautifulSoup is expected to build (`toks_of` + xbuild) - these two describe the
   library layers and are validated, not trusted, by the harness.  Definitions only. *)
From Coq Require Import List ZArith Bool.
From PV Require Import lib.Sx lib.Str spec.SpecTextXml model.TextRead.
Import ListNotations.
Open Scope Z_scope.

(* spelled character: (code point, spelling) ; spelling 0 raw, 1 named (a name the format itself defines), 2 decimal,
   3 &#x..; 4 &#X..; 5 (WebVTT only) a named reference of HTML that is not one of WebVTT's own six - the current WebVTT
   specification reads cue text with the HTML character-reference rules, so numeric and HTML named references denote
   their character there as well *)
Definition schar := (Z * Z)%type.

Inductive item : Type :=
| ITxt (cs : list schar)
| IWrap (n : Z)                       (* source line wrap inside text: a line end (n/100: 0 LF, 1 CRLF, 2 CR)
                                         + (n mod 100) spaces; shows as one space *)
| IEnt (name : str) (c : Z)           (* SAMI/HTML: the named reference &name; (exact, case-sensitive name) for the
                                         character c - the pair comes from the HTML entity list, not from pycaption *)
| IBr
| IOpen (k : Z)
| IClose (k : Z)
| IVoice (classes : list str) (name : list schar)     (* WebVTT <v.c1.c2 Name> *)
| IStamp (s : str)                                    (* WebVTT <00:01.000> *)
| IUnk (close : bool) (name : str)                    (* a tag WebVTT does not define *)
| ICom (s : str)                                      (* DFXP / SAMI comment <!--s--> : markup, shows nothing *)
| IPi (s : str).                                      (* DFXP processing instruction <?s?> : markup, shows nothing *)

(* formats *)
Definition F_DFXP := 0. Definition F_SAMI := 1. Definition F_VTT := 2. Definition F_SRT := 3. Definition F_MDVD := 4.

(* ---- what is displayed ------------------------------------------------------------------------- *)
Definition chars (cs : list schar) : str := map fst cs.

Fixpoint display_aux (items : list item) (cur : str) : list str :=
  match items with
  | [] => [cur]
  | ITxt cs :: t => display_aux t (cur ++ chars cs)
  | IWrap _ :: t => display_aux t (cur ++ [32])
  | IEnt _ c :: t => display_aux t (cur ++ [c])
  | IBr :: t => cur :: display_aux t []
  | IOpen _ :: t => display_aux t cur
  | IClose _ :: t => display_aux t cur
  | IStamp _ :: t => display_aux t cur
  | IVoice _ name :: t => display_aux t (cur ++ chars name ++ lit ": ")
  | IUnk close name :: t =>
      display_aux t (cur ++ lit "<" ++ (if close then lit "/" else []) ++ name ++ lit ">")
  | ICom _ :: t => display_aux t cur
  | IPi _ :: t => display_aux t cur
  end.
Definition display (items : list item) : list str := display_aux items [].

(* ---- spelling ------------------------------------------------------------------------------------ *)
Definition xml_names : list (Z * str) :=
  [(38, lit "amp"); (60, lit "lt"); (62, lit "gt"); (34, lit "quot"); (39, lit "apos")].
Definition html_names : list (Z * str) :=
  [(38, lit "amp"); (60, lit "lt"); (62, lit "gt"); (34, lit "quot"); (39, lit "apos"); (160, lit "nbsp");
   (233, lit "eacute"); (169, lit "copy"); (8364, lit "euro")].
Definition vtt_names : list (Z * str) :=
  [(38, lit "amp"); (60, lit "lt"); (62, lit "gt"); (160, lit "nbsp"); (8206, lit "lrm"); (8207, lit "rlm")].

Fixpoint name_of (c : Z) (l : list (Z * str)) : option str :=
  match l with [] => None | (c', n) :: t => if c =? c' then Some n else name_of c t end.

Definition names_for (fmt : Z) : list (Z * str) :=
  if fmt =? F_DFXP then xml_names else if fmt =? F_SAMI then html_names else if fmt =? F_VTT then vtt_names else [].

Definition hexd (upper : bool) (d : Z) : Z := if d <? 10 then 48 + d else (if upper then 55 else 87) + d.
Fixpoint hex_aux (fuel : nat) (upper : bool) (z : Z) (acc : str) : str :=
  match fuel with
  | O => acc
  | S f => let acc' := hexd upper (z mod 16) :: acc in
           if z <? 16 then acc' else hex_aux f upper (z / 16) acc'
  end.
Definition hex_of (upper : bool) (z : Z) : str := hex_aux 8 upper z [].

Definition must_escape (c : Z) : bool := (c =? 38) || (c =? 60).

Definition spell (fmt : Z) (sc : schar) : str :=
  let (c, sp) := sc in
  let named := match name_of c (names_for fmt) with Some n => Some (lit "&" ++ n ++ lit ";") | None => None end in
  let fallback := match named with Some e => e | None => [c] end in
  let numeric_ok := (fmt =? F_DFXP) || (fmt =? F_SAMI) || (fmt =? F_VTT) in
  if (fmt =? F_SRT) || (fmt =? F_MDVD) then [c]
  else if sp =? 1 then fallback
  else if (sp =? 5) && (fmt =? F_VTT) then
    match name_of c html_names with
    | Some n => lit "&" ++ n ++ lit ";"
    | None => if must_escape c then fallback else [c]
    end
  else if (sp =? 2) && numeric_ok then lit "&#" ++ dec_z c ++ lit ";"
  else if (sp =? 3) && numeric_ok then lit "&#x" ++ hex_of false c ++ lit ";"
  else if (sp =? 4) && numeric_ok then lit "&#X" ++ hex_of true c ++ lit ";"
  else if must_escape c then fallback else [c].
Definition spell_all (fmt : Z) (cs : list schar) : str := flat_map (spell fmt) cs.

(* ---- inline tags ----------------------------------------------------------------------------------- *)
(* (element name, attribute text, attribute list) of style tag k *)
Definition tag_of (fmt k : Z) : str * list (str * str) :=
  if fmt =? F_DFXP then
    (lit "span",
     if k =? 0 then [(lit "tts:fontStyle", lit "italic")]
     else if k =? 1 then [(lit "tts:fontWeight", lit "bold")]
     else if k =? 2 then [(lit "tts:textDecoration", lit "underline")]
     else [(lit "tts:color", lit "red")])
  else if fmt =? F_SAMI then
    if k =? 0 then (lit "i", []) else if k =? 1 then (lit "b", []) else if k =? 2 then (lit "u", [])
    else if k =? 3 then (lit "span", [(lit "style", lit "font-style:italic;")])
    else (lit "span", [(lit "class", lit "hl")])
  else
    (* WebVTT: k mod 10 = the tag, k / 10 = the shape of the start tag (vtt_annot) *)
    let k := k mod 10 in
    if k =? 0 then (lit "i", []) else if k =? 1 then (lit "b", []) else if k =? 2 then (lit "u", [])
    else if k =? 3 then (lit "c", []) else if k =? 4 then (lit "ruby", []) else if k =? 5 then (lit "rt", [])
    else if k =? 6 then (lit "lang", []) else (lit "v", []).

(* WebVTT start tags: every tag may carry classes (.a.b) and, after a space or a TAB, an annotation.
   shape k / 10: 0 the usual one (<c.yellow.bg_blue>, <lang en-GB>, others bare); 1 bare; 2 one class; 3 space + annotation;
   4 TAB + annotation; 5 classes + space + annotation.  <v ...> with an annotation is a voice tag (IVoice), so the v tag
   written through IOpen never gets one. *)
Definition vtt_annot (k : Z) : str :=
  let t := k mod 10 in let v := k / 10 in
  if v =? 0 then (if t =? 3 then lit ".yellow.bg_blue" else if t =? 6 then lit " en-GB" else [])
  else if v =? 2 then lit ".loud"
  else if (v =? 3) && negb (t =? 7) then lit " en"
  else if (v =? 4) && negb (t =? 7) then 9 :: lit "en x"
  else if v =? 5 then (if t =? 7 then lit ".a.b-c" else lit ".a.b-c some words")
  else [].

Definition attrs_text (a : list (str * str)) : str :=
  concat (map (fun kv => lit " " ++ fst kv ++ lit "=""" ++ snd kv ++ lit """") a).

Definition spaces (n : Z) : str := repeat 32 (Z.to_nat n).
Definition wrap_text (n : Z) : str :=
  (if n / 100 =? 1 then [13; 10] else if n / 100 =? 2 then [13] else [10]) ++ spaces (n mod 100).

Definition ser_item (fmt : Z) (it : item) : str :=
  match it with
  | ITxt cs => spell_all fmt cs
  | IWrap n => if (fmt =? F_DFXP) || (fmt =? F_SAMI) then wrap_text n else [32]
  | IEnt n c => if fmt =? F_SAMI then lit "&" ++ n ++ lit ";" else [c]
  | IBr => if fmt =? F_DFXP then lit "<br/>" else if fmt =? F_SAMI then lit "<br>"
           else if fmt =? F_MDVD then lit "|" else [10]
  | IOpen k =>
      if (fmt =? F_SRT) || (fmt =? F_MDVD) then []
      else let (n, a) := tag_of fmt k in
           lit "<" ++ n ++ (if fmt =? F_VTT then vtt_annot k else attrs_text a) ++ lit ">"
  | IClose k =>
      if (fmt =? F_SRT) || (fmt =? F_MDVD) then []
      else lit "</" ++ fst (tag_of fmt k) ++ lit ">"
  | IVoice cls name =>
      if fmt =? F_VTT then lit "<v" ++ concat (map (fun c => 46 :: c) cls) ++ lit " " ++ spell_all fmt name ++ lit ">"
      else []
  | IStamp s => if fmt =? F_VTT then lit "<" ++ s ++ lit ">" else []
  | IUnk close name => if fmt =? F_VTT then lit "<" ++ (if close then lit "/" else []) ++ name ++ lit ">" else []
  | ICom s => if (fmt =? F_DFXP) || (fmt =? F_SAMI) then lit "<!--" ++ s ++ lit "-->" else []
  | IPi s => if fmt =? F_DFXP then lit "<?" ++ s ++ lit "?>" else []
  end.
Definition serialise (fmt : Z) (items : list item) : str := flat_map (ser_item fmt) items.

(* ---- library layer 1: what html.parser reports for the SAMI serialisation --------------------------- *)
Definition ev_of_char (sc : schar) : hev :=
  let (c, sp) := sc in
  match name_of c html_names with
  | Some n => if (sp =? 1) || ((sp =? 0) && must_escape c) then EvEntity n
              else if sp =? 2 then EvCharref (dec_z c)
              else if sp =? 3 then EvCharref (120 :: hex_of false c)
              else if sp =? 4 then EvCharref (88 :: hex_of true c)
              else EvData [c]
  | None => if sp =? 2 then EvCharref (dec_z c)
            else if sp =? 3 then EvCharref (120 :: hex_of false c)
            else if sp =? 4 then EvCharref (88 :: hex_of true c)
            else EvData [c]
  end.

Definition ev_of_item (it : item) : list hev :=
  match it with
  | ITxt cs => map ev_of_char cs
  | IWrap n => [EvData (wrap_text n)]
  | IEnt n _ => [EvEntity n]
  | IBr => [EvStart (lit "br") []]
  | IOpen k => let (n, a) := tag_of F_SAMI k in [EvStart n a]
  | IClose k => [EvEnd (fst (tag_of F_SAMI k))]
  | _ => []
  end.

(* adjacent data events are one event (html.parser may deliver character data in several pieces) *)
Fixpoint merge_data (evs : list hev) : list hev :=
  match evs with
  | EvData a :: t =>
      match merge_data t with
      | EvData b :: t' => EvData (a ++ b) :: t'
      | t' => EvData a :: t'
      end
  | e :: t => e :: merge_data t
  | [] => []
  end.
Definition events_of (items : list item) : list hev := merge_data (flat_map ev_of_item items).

(* ---- library layer 2: the tree BeautifulSoup builds ---------------------------------------------------- *)
(* a string of ASCII white space only is replaced by "\n" if it contains a line feed, else by " " *)
Definition bs4_space (c : Z) : bool := (c =? 32) || (c =? 10) || (c =? 9) || (c =? 12) || (c =? 13).
Definition bs4_string (s : str) : str :=
  if forallb bs4_space s then (if existsb (fun c => c =? 10) s then [10] else [32]) else s.

Definition flush_text (cur : str) (out : list xtok) : list xtok :=
  match cur with [] => out | _ => TkText (bs4_string (rev cur)) :: out end.

(* html.parser lower-cases attribute names *)
Definition lower_attrs (a : list (str * str)) : list (str * str) := map (fun kv => (lower (fst kv), snd kv)) a.

Fixpoint toks_aux (fmt : Z) (items : list item) (cur : str) (out : list xtok) : list xtok :=
  match items with
  | [] => rev (flush_text cur out)
  | ITxt cs :: t => toks_aux fmt t (rev (chars cs) ++ cur) out
  | IWrap n :: t => toks_aux fmt t (rev (wrap_text n) ++ cur) out
  | IEnt _ c :: t => toks_aux fmt t (c :: cur) out
  | IBr :: t => toks_aux fmt t [] (TkEmpty (lit "br") [] :: flush_text cur out)
  | IOpen k :: t => let (n, a) := tag_of fmt k in toks_aux fmt t [] (TkOpen n (lower_attrs a) :: flush_text cur out)
  | IClose k :: t => toks_aux fmt t [] (TkClose (fst (tag_of fmt k)) :: flush_text cur out)
  | ICom _ :: t => toks_aux fmt t [] (flush_text cur out)      (* a comment / PI is a node of its own: it ends the string *)
  | IPi _ :: t => toks_aux fmt t [] (flush_text cur out)
  | _ :: t => toks_aux fmt t cur out
  end.
Definition toks_of (fmt : Z) (items : list item) : list xtok := toks_aux fmt items [] [].
Definition tree_of (fmt : Z) (items : list item) : option (list xnode) := xbuild (toks_of fmt items) [] [].

(* the same collapse applied to a parsed tree (used after the stand-in parse of the SAMI stage-1 markup) *)
Fixpoint bs4_tree (x : xnode) : xnode :=
  match x with
  | XText s => XText (bs4_string s)
  | XElem n a kids => XElem n a (map bs4_tree kids)
  end.

(* ---- the reading pipelines as compositions of model and library stand-ins ------------------------------- *)
Definition read_dfxp (fixed : bool) (items : list item) : option (list TextNodes.node) :=
  match tree_of F_DFXP items with
  | Some t => Some (flat_map (dfxp_nodes fixed) t)
  | None => None
  end.

(* SAMI: events -> SAMIParser model -> (strict XML content parser as the stand-in for the lenient HTML parser,
   on the markup the model emits) -> bs4 white-space rule -> SAMIReader model *)
Definition read_sami (fixed : bool) (items : list item) : option (list TextNodes.node) :=
  match sami_stage1 fixed (events_of items) with
  | Result.Ok s =>
      match content_parse_html s with
      | Some t => Some (flat_map (sami_nodes fixed) (map bs4_tree t))
      | None => None
      end
  | Result.Err _ => None
  end.

Definition read_vtt (fixed : bool) (items : list item) : list TextNodes.node :=
  vtt_cue_nodes fixed (split_ch 10 (serialise F_VTT items)).
Definition read_srt (items : list item) : list TextNodes.node :=
  srt_text_nodes (split_ch 10 (serialise F_SRT items)).
Definition read_mdvd (items : list item) : list TextNodes.node :=
  mdvd_text_nodes (serialise F_MDVD items).

(* ---- WebVTT documents: cue identifiers, NOTE / STYLE / REGION blocks -------------------------------------- *)
Inductive vblock : Type :=
| BCue (ident : option str) (timing : str) (items : list item)
| BOther (lines : list str).          (* NOTE ..., STYLE ..., REGION ... : a block without a timing line *)

Definition payload_lines (items : list item) : list str := split_ch 10 (serialise F_VTT items).

Definition block_lines (b : vblock) : list str :=
  match b with
  | BCue ident timing items => (match ident with Some i => [i] | None => [] end) ++ timing :: payload_lines items
  | BOther ls => ls
  end.

(* header lines (first = WEBVTT ...), a blank line, then the blocks, each followed by `gap` >= 1 blank lines;
   the last block may end the document without one *)
Fixpoint blocks_lines (bs : list (vblock * nat)) : list str :=
  match bs with
  | [] => []
  | (b, gap) :: t => block_lines b ++ repeat [] gap ++ blocks_lines t
  end.
Definition vtt_document_lines (header : list str) (bs : list (vblock * nat)) : list str :=
  header ++ [[]] ++ blocks_lines bs.

Definition cues_of (bs : list (vblock * nat)) : list (list item) :=
  flat_map (fun bg => match fst bg with BCue _ _ items => [items] | BOther _ => [] end) bs.
