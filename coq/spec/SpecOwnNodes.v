(* C20, sentence 2 at the level of caption sets: the DOMAIN of the own-output theorems that start from the text nodes.
   "text that does not contain another format's marker": the caption's text (Caption.get_text_nodes joined: text
   nodes as they are, '\n' for a line break) carries no marker of a format probed before the writer's own
   (decision xii); the predicate is on the caption text, not on single nodes, because two adjacent text nodes are
   written next to each other ("</t" + "t>").  Definitions only. *)
From Coq Require Import List ZArith Bool.
From PV Require Import lib.Sx lib.Str lib.Result model.Generated model.Detect spec.SpecOwn model.OwnWrite.
Import ListNotations.
Open Scope Z_scope.

Definition caps_free (ms : list (str * bool)) (langs : list (list ocap)) : bool :=
  forallb (forallb (fun c => free ms (cap_text c))) langs.

(* SRT: the first language has a caption (else the document starts with the language separator: recorded finding) *)
Definition srt_dom (langs : list (list ocap)) : bool :=
  match langs with (_ :: _) :: _ => true | _ => false end && caps_free before_srt langs.

(* MicroDVD: some language has a caption; times are non-negative *)
Definition times_nonneg (langs : list (list ocap)) : bool :=
  forallb (forallb (fun c => (0 <=? oc_start c) && (0 <=? oc_end c))) langs.
(* ... and below 2^50 microseconds: _microtoframes goes through a binary64 product, the model's frame number us / 40000 is
   the code's only where that product is exact (audit w7 item 7: the restriction belongs in the statement) *)
Definition times_small (langs : list (list ocap)) : bool :=
  forallb (forallb (fun c => (oc_start c <? 1125899906842624) && (oc_end c <? 1125899906842624))) langs.
Definition mdvd_dom (langs : list (list ocap)) : bool :=
  match concat langs with [] => false | _ => true end && times_nonneg langs && times_small langs
  && caps_free before_mdvd langs.

(* DFXP / SAMI skeletons: the documents come out of bs4; what the sniffers need of them is the closing </tt> of the root
   element (DFXP) and the opening <sami of the root element with no earlier marker behind it (SAMI) *)
Definition dfxp_document (pre post : str) : str := pre ++ dfxp_marker ++ post.
Definition before_sami : list (str * bool) := [(dfxp_marker, true); (vtt_marker, false)].
Definition sami_document (rest : str) : str := sami_marker ++ rest.

(* ---- "that reader reads the document" (wave 7, round 3) ------------------------------------------------------------ *)
(* MicroDVD.  The domain excludes exactly the two recorded findings of the format:
     C20-microdvd-frame0-cue        a cue that lies inside frame 0 is written {0}{0}text = the frame-rate header;
     C20-microdvd-cue-without-text  a cue whose text has no character besides blanks and '|' is written without text.
   A caption is VISIBLE when its text has a character that is neither white space nor '|'. *)
Definition mdvd_visible (c : ocap) : bool :=
  existsb (fun ch => negb (is_space ch) && negb (ch =? 124)) (cap_text c).
Definition mdvd_read_dom (langs : list (list ocap)) : bool :=
  match concat langs with [] => false | _ => true end && times_nonneg langs
  && forallb (forallb (fun c => (40000 <=? oc_end c) && mdvd_visible c)) langs.
(* what the reader must return for one written cue: the instants of its two frames at 25 fps and the text pieces *)
Definition mdvd_expected_cap (c : ocap) : Z * Z * list str :=
  (mdvd_frame (oc_start c) * 40000, mdvd_frame (oc_end c) * 40000,
   filter (fun l => negb (str_eqb l [])) (split_ch 124 (mdvd_clean (mdvd_raw c)))).

(* SRT.  The domain excludes the recorded finding C20-srt-empty-first-language; one language only (behind the separator
   line the reader glues the next language's blocks to the last cue: no finding, but not "one caption per cue"); the
   caption text has no CR (the reader splits lines at CR as well) and some character that is not white space. *)
Definition srt_visible (c : ocap) : bool := existsb (fun ch => negb (is_space ch)) (cap_text c).
Definition srt_read_dom (langs : list (list ocap)) : bool :=
  match langs with
  | [c :: t] => forallb (fun c => srt_visible c && negb (existsb (Z.eqb 13) (cap_text c))) (c :: t)
  | _ => false
  end.
Definition srt_expected_cap (c : ocap) : Z * Z * list str :=
  ((td_seconds (oc_start c) * 1000 + td_millis (oc_start c)) * 1000,
   (td_seconds (oc_end c) * 1000 + td_millis (oc_end c)) * 1000,
   filter nonblank (split_ch 10 (strip (cap_text c)))).
