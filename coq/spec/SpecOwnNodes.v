(* C20, sentence 2 at the level of caption sets: the DOMAIN of the own-output theorems that start from the text nodes.
   "text that does not contain another format's marker": the caption's text (Caption.get_text_nodes joined: text
   nodes as they are, '\n' for a line break) carries no marker of a format probed before the writer's own
   (decision xii); the predicate is on the caption text, not on single nodes, because two adjacent text nodes are
   written next to each other ("</t" + "t>").  Definitions only. *)
From Coq Require Import List ZArith Bool.
From PV Require Import lib.Sx lib.Str lib.Result model.Generated model.Detect spec.SpecOwn model.OwnWrite.
Import ListNotations.
Open Scope Z_scope.

Definition caps_free (ms : list (str * bool)) (langs : list (list ocap)) : bool :=
  forallb (forallb (fun c => free ms (cap_text c))) langs.

(* SRT: the first language has a caption (else the document starts with the language separator: recorded finding) *)
Definition srt_dom (langs : list (list ocap)) : bool :=
  match langs with (_ :: _) :: _ => true | _ => false end && caps_free before_srt langs.

(* MicroDVD: some language has a caption; times are non-negative *)
Definition times_nonneg (langs : list (list ocap)) : bool :=
  forallb (forallb (fun c => (0 <=? oc_start c) && (0 <=? oc_end c))) langs.
Definition mdvd_dom (langs : list (list ocap)) : bool :=
  match concat langs with [] => false | _ => true end && times_nonneg langs && caps_free before_mdvd langs.

(* DFXP / SAMI skeletons: the documents come out of bs4; what the sniffers need of them is the closing </tt> of the root
   element (DFXP) and the opening <sami of the root element with no earlier marker behind it (SAMI) *)
Definition dfxp_document (pre post : str) : str := pre ++ dfxp_marker ++ post.
Definition before_sami : list (str * bool) := [(dfxp_marker, true); (vtt_marker, false)].
Definition sami_document (rest : str) : str := sami_marker ++ rest.
