(* C06 specification, from the property statement.
   "a caption starts at the instant its End-Of-Caption code is transmitted - the line's timecode plus one frame per
    preceding code word, non-drop-frame timecode running 1001/1000 slower than drop-frame, minus the configured offset
    and floored at zero - and ends at the next Erase-Displayed-Memory or End-Of-Caption code. A gap shorter than five
    frames before the next caption is closed, and a final caption that is never cleared lasts four seconds. Captions
    come out in transmission order with start <= end, and a displayed duration under 0.05 s is rejected with a timing
    error instead of being returned."
   Three points the statement leaves open are decided as the code does (design/C06.md, "decisions"): a zero duration is
   not a flash (flash requires 0 < d), an EOC with nothing loaded clears the screen, a negative gap is closed like a short
   one. *)
From Coq Require Import List ZArith QArith Qabs Bool.
From PV Require Import lib.Sx lib.Str lib.Result.
Import ListNotations.
Open Scope Z_scope.

Record timecode : Type := mkTc { tc_h : Z; tc_m : Z; tc_s : Z; tc_drop : bool; tc_f : Z }.

Definition million : Q := inject_Z 1000000.
Definition qmax0 (q : Q) : Q := if Qle_bool 0 q then q else 0%Q.

(* instant of the code word that has k code words before it on a line stamped tc; offset in microseconds *)
Definition spec_instant (tc : timecode) (k : Z) (offset_us : Q) : Q :=
  let seconds := (inject_Z (3600 * tc_h tc + 60 * tc_m tc + tc_s tc) + inject_Z (tc_f tc + k) / inject_Z 30)%Q in
  let wall := (if tc_drop tc then seconds else seconds * (1001 # 1000))%Q in
  qmax0 (wall * million - offset_us)%Q.

(* "hh:mm:ss:ff" (non-drop) / "hh:mm:ss;ff" (drop-frame), two digits per field *)
Definition two (z : Z) : str := zpad 2 (dec_z z).
Definition render_tc (tc : timecode) : str :=
  two (tc_h tc) ++ [58] ++ two (tc_m tc) ++ [58] ++ two (tc_s tc) ++ [if tc_drop tc then 59 else 58] ++ two (tc_f tc).
Definition tc_wf (tc : timecode) : bool :=
  (0 <=? tc_h tc) && (tc_h tc <? 100) && (0 <=? tc_m tc) && (tc_m tc <? 100) && (0 <=? tc_s tc) && (tc_s tc <? 100)
  && (0 <=? tc_f tc) && (tc_f tc <? 100).

(* the display events of a pop-on stream: a caption is shown (End-Of-Caption with a loaded caption) or the screen is
   cleared (Erase-Displayed-Memory, or an End-Of-Caption with nothing loaded) at an instant *)
Inductive ev : Type := Show (t : Q) | Clear (t : Q).

(* (start, explicit end if any) of each displayed caption, in transmission order *)
Fixpoint raw_spans (evs : list ev) (shown : option Q) : list (Q * option Q) :=
  match evs with
  | [] => match shown with Some s => [(s, None)] | None => [] end
  | Show t :: r => (match shown with Some s => [(s, Some t)] | None => [] end) ++ raw_spans r (Some t)
  | Clear t :: r => (match shown with Some s => [(s, Some t)] | None => [] end) ++ raw_spans r None
  end.

Definition frame_us : Q := (1001000 # 30)%Q.        (* one code word = 1/29.97 s *)
Definition four_s : Q := inject_Z 4000000.

(* closing: a gap below `thr` before the next caption is closed; the last caption without an end lasts 4 s *)
Fixpoint close_gaps (thr : Q) (l : list (Q * option Q)) : list (Q * Q) :=
  match l with
  | [] => []
  | (s, oe) :: r =>
      let e := match oe with
               | None => (s + four_s)%Q
               | Some e => match r with
                           | (s', _) :: _ => if Qle_bool thr (s' - e) then e else s'
                           | [] => e
                           end
               end in
      (s, e) :: close_gaps thr r
  end.

Definition flash (p : Q * Q) : bool :=
  let d := (snd p - fst p)%Q in negb (Qle_bool d 0) && negb (Qle_bool (inject_Z 50000) d).

Definition expected_with (thr : Q) (evs : list ev) : result (list (Q * Q)) :=
  let l := close_gaps thr (raw_spans evs None) in
  if existsb flash l then Err ETiming else match l with [] => Err ENoCaptions | _ => Ok l end.

Definition q_close (a b : Q) : bool := Qle_bool (Qabs (a - b)) (1 # 1024).
Definition span_close (a b : Q * Q) : bool := q_close (fst a) (fst b) && q_close (snd a) (snd b).
Fixpoint list_close (a b : list (Q * Q)) : bool :=
  match a, b with
  | [], [] => true
  | x :: a', y :: b' => span_close x y && list_close a' b'
  | _, _ => false
  end.

(* captions with identical (start, end) form one screen *)
Fixpoint screens (l : list (Q * Q)) : list (Q * Q) :=
  match l with
  | [] => []
  | x :: t => match t with
              | y :: _ => if Qeq_bool (fst x) (fst y) && Qeq_bool (snd x) (snd y) then screens t else x :: screens t
              | [] => [x]
              end
  end.

Definition res_close (e o : result (list (Q * Q))) : bool :=
  match e, o with
  | Ok a, Ok b => list_close (screens a) (screens b)      (* runs of identical spans form one screen, on both sides *)
  | Err x, Err y => err_code x =? err_code y
  | _, _ => false
  end.

(* property oracle. The statement fixes the outcome for gaps shorter than five frames (closed) and leaves a gap of
   exactly five frames open to either reading: an observation is accepted when it matches the expectation computed
   with the threshold "five frames" or with "five frames + 1 microsecond". *)
Definition thr_lo : Q := (5 * frame_us)%Q.
Definition thr_hi : Q := (5 * frame_us + 1)%Q.
Definition ok_c06 (evs : list ev) (obs : result (list (Q * Q))) : bool :=
  res_close (expected_with thr_lo evs) obs || res_close (expected_with thr_hi evs) obs.
