(* C01 specification at the level of abstract DFXP / SAMI trees: which captions a document denotes
   (per language, in document order, one per paragraph with visible text), and how the abstract tree is
   rendered to the attribute dictionaries the reader sees.  Definitions only. *)
From Coq Require Import List ZArith QArith Bool.
From PV Require Import lib.Sx lib.Str lib.Result lib.Dec.
From PV Require Import model.TimeRead model.TimeTree spec.SpecTime.
Import ListNotations.
Open Scope Z_scope.

(* ---- DFXP ------------------------------------------------------------------------------------------ *)
(* a paragraph with text carries time expressions (begin + end | dur) among other attributes; a paragraph
   without visible text may carry anything: it denotes no cue *)
Inductive ap := APText (extra : attrs) (t : dfxp_p) | APBlank (a : attrs).

Definition is_time_name (n : str) : bool :=
  str_eqb n (lit "begin") || str_eqb n (lit "end") || str_eqb n (lit "dur").
Definition time_free (a : attrs) : bool := forallb (fun nv => negb (is_time_name (fst nv))) a.

Definition time_attrs (t : dfxp_p) : attrs :=
  (lit "begin", texpr_render (p_begin t))
  :: [(if p_is_dur t then lit "dur" else lit "end", texpr_render (p_close t))].

Definition ap_render (p : ap) : xp :=
  match p with
  | APText ex t => mkXp (ex ++ time_attrs t) true
  | APBlank a => mkXp a false
  end.

Definition ap_dom (p : ap) : bool :=
  match p with APText ex t => time_free ex && dfxp_p_dom t | APBlank _ => true end.

Definition ap_expected (ps : list ap) : list (Z * Z) :=
  flat_map (fun p => match p with APText _ t => [dfxp_p_expected t] | APBlank _ => [] end) ps.

(* the language a <div> stands for: its own xml:lang, else the document's, else the default *)
Definition lang_of (default : str) (tt : option str) (own : option str) : str :=
  match own with Some l => l | None => match tt with Some l => l | None => default end end.

Fixpoint distinct (ks : list str) : bool :=
  match ks with [] => true | k :: t => negb (existsb (str_eqb k) t) && distinct t end.

Definition tree_dom (default : str) (tt : option str) (divs : list (option str * list ap)) : bool :=
  distinct (map (fun dv => lang_of default tt (fst dv)) divs)
  && forallb (fun dv => forallb ap_dom (snd dv)) divs.

Definition tree_expected (default : str) (tt : option str) (divs : list (option str * list ap))
  : list (str * list (Z * Z)) :=
  map (fun dv => (lang_of default tt (fst dv), ap_expected (snd dv))) divs.

(* a document none of whose languages has a caption is refused *)
Definition set_result (d : list (str * list (Z * Z))) : result (list (str * list (Z * Z))) :=
  if forallb (fun kv => match snd kv with [] => true | _ => false end) d then Err ENoCaptions else Ok d.

(* ---- SAMI ------------------------------------------------------------------------------------------ *)
(* body: syncs (zero padding, start ms) with their paragraphs (language, has visible text) *)
Definition async : Type := (nat * Z * list (str * bool))%type.

Definition async_render (sy : async) : xsync := (Some (padded (fst (fst sy)) (snd (fst sy))), snd sy).

Definition sami_proj (lang : str) (body : list async) : list sami_p :=
  flat_map (fun sy : async =>
              map (fun p => mkSp (fst (fst sy)) (snd (fst sy)) (snd p))
                  (filter (fun p => str_eqb (fst p) lang) (snd sy))) body.

Definition sami_abs_of (ps : list sami_p) : list (Z * bool) := map (fun p => (sp_ms p, sp_text p)) ps.

Definition sami_tree_dom (langs : list str) (body : list async) : bool :=
  distinct langs && forallb (fun lg => sami_dom (sami_abs_of (sami_proj lg body))) langs.

Definition sami_tree_expected (langs : list str) (body : list async) : list (str * list (Z * Z)) :=
  map (fun lg => (lg, sami_expected (sami_abs_of (sami_proj lg body)))) langs.
