(* C01 specification at the level of abstract DFXP / SAMI trees: which captions a document denotes
   (per language, in document order, one per paragraph with visible text), and how the abstract tree is
   rendered to the attribute dictionaries the reader sees.  Definitions only. *)
From Coq Require Import List ZArith QArith Bool.
From PV Require Import lib.Sx lib.Str lib.Result lib.Dec.
From PV Require Import model.TimeRead model.TimeTree spec.SpecTime.
Import ListNotations.
Open Scope Z_scope.

(* ---- DFXP ------------------------------------------------------------------------------------------ *)
(* a paragraph with text carries time expressions (begin + end | dur) among other attributes; a paragraph
   without visible text may carry anything: it denotes no cue *)
Inductive ap := APText (extra : attrs) (t : dfxp_p) | APBlank (a : attrs).

Definition is_time_name (n : str) : bool :=
  str_eqb n (lit "begin") || str_eqb n (lit "end") || str_eqb n (lit "dur").
Definition time_free (a : attrs) : bool := forallb (fun nv => negb (is_time_name (fst nv))) a.

Definition time_attrs (t : dfxp_p) : attrs :=
  (lit "begin", texpr_render (p_begin t))
  :: [(if p_is_dur t then lit "dur" else lit "end", texpr_render (p_close t))].

Definition ap_render (p : ap) : xp :=
  match p with
  | APText ex t => mkXp (ex ++ time_attrs t) true
  | APBlank a => mkXp a false
  end.

Definition ap_dom (p : ap) : bool :=
  match p with APText ex t => time_free ex && dfxp_p_dom t | APBlank _ => true end.

Definition ap_expected (ps : list ap) : list (Z * Z) :=
  flat_map (fun p => match p with APText _ t => [dfxp_p_expected t] | APBlank _ => [] end) ps.

(* a document: its <div>s and its <p>s in document order. A <div> is given by the xml:lang attributes on the way
   from it outward through the enclosing <div>s (own first); a <p> by the same list for its nearest <div>
   (None: the paragraph is in no <div> and denotes nothing).  The language of a paragraph is the nearest xml:lang
   on that way, else the document's, else the default.  Several divisions may stand for one language. *)
Fixpoint nearest_lang (default : str) (tt : option str) (ch : list (option str)) : str :=
  match ch with
  | Some l :: _ => l
  | None :: t => nearest_lang default tt t
  | [] => match tt with Some l => l | None => default end
  end.

Fixpoint languages_in_order (seen ls : list str) : list str :=
  match ls with
  | [] => []
  | l :: t => if existsb (str_eqb l) seen then languages_in_order seen t
              else l :: languages_in_order (seen ++ [l]) t
  end.

Definition chain_eqb (a b : list (option str)) : bool :=
  (length a =? length b)%nat &&
  forallb (fun p => match fst p, snd p with
                    | Some x, Some y => str_eqb x y | None, None => true | _, _ => false end) (combine a b).

Definition doc_dom (divs : list (list (option str))) (ps : list (option (list (option str)) * ap)) : bool :=
  forallb (fun cp => ap_dom (snd cp)
                     && match fst cp with Some ch => existsb (chain_eqb ch) divs | None => true end) ps.

(* per language, in order of the first division of the language: the cues of its paragraphs with text, in
   document order *)
Definition doc_expected_with (f : dfxp_p -> Z * Z) (default : str) (tt : option str)
           (divs : list (list (option str))) (ps : list (option (list (option str)) * ap))
  : list (str * list (Z * Z)) :=
  map (fun l => (l, flat_map (fun cp => match fst cp, snd cp with
                                         | Some ch, APText _ t =>
                                             if str_eqb (nearest_lang default tt ch) l then [f t] else []
                                         | _, _ => []
                                         end) ps))
      (languages_in_order [] (map (nearest_lang default tt) divs)).
Definition doc_expected := doc_expected_with dfxp_p_expected.
(* begin+dur read as the exact sum floored once: the other admissible reading *)
Definition doc_expected_alt := doc_expected_with dfxp_p_expected_alt.

Fixpoint distinct (ks : list str) : bool :=
  match ks with [] => true | k :: t => negb (existsb (str_eqb k) t) && distinct t end.

(* a document none of whose languages has a caption is refused *)
Definition set_result (d : list (str * list (Z * Z))) : result (list (str * list (Z * Z))) :=
  if forallb (fun kv => match snd kv with [] => true | _ => false end) d then Err ENoCaptions else Ok d.

(* ---- SAMI ------------------------------------------------------------------------------------------ *)
(* body: syncs (zero padding, start ms) with their paragraphs (language, has visible text) *)
Definition async : Type := (nat * Z * list (str * bool))%type.

Definition async_render (sy : async) : xsync := (Some (padded (fst (fst sy)) (snd (fst sy))), snd sy).

Definition sami_proj (lang : str) (body : list async) : list sami_p :=
  flat_map (fun sy : async =>
              map (fun p => mkSp (fst (fst sy)) (snd (fst sy)) (snd p))
                  (filter (fun p => str_eqb (fst p) lang) (snd sy))) body.

Definition sami_abs_of (ps : list sami_p) : list (Z * bool) := map (fun p => (sp_ms p, sp_text p)) ps.

Definition sami_tree_dom (langs : list str) (body : list async) : bool :=
  distinct langs && forallb (fun lg => sami_dom (sami_abs_of (sami_proj lg body))) langs.

Definition sami_tree_expected (langs : list str) (body : list async) : list (str * list (Z * Z)) :=
  map (fun lg => (lg, sami_expected (sami_abs_of (sami_proj lg body)))) langs.
