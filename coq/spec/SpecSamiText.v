(* C01, round 4: SAMI documents AS TEXT (from <BODY> on).  An abstract document fixes the syncs (start in ms with zero
   padding), the paragraphs of every sync with their language and content, AND the lexical choices: the case of every
   tag name, the attributes of every tag with white space before the name and around '=', each value double-quoted,
   single-quoted or unquoted, other attributes around start= / class= / lang=, every text character literal / entity /
   decimal character reference / &nbsp;, <br> tags, white space between tags.  Definitions only. *)
From Coq Require Import List ZArith Bool.
From PV Require Import lib.Sx lib.Str lib.Result lib.Dec.
From PV Require Import model.TimeRead model.TimeTree model.XmlRead model.SamiText.
From PV Require Import spec.SpecTime spec.SpecTimeTree spec.SpecXmlDocT.
Import ListNotations.
Open Scope Z_scope.

(* sa_q: 34 / 39 = quoted, 0 = unquoted *)
Record sattr := mkSa { sa_pre : str; sa_name : str; sa_e1 : str; sa_e2 : str; sa_q : Z; sa_val : str }.

Definition unq_plain (c : Z) : bool := name_c c || uc_letter c.
Definition render_sattr (a : sattr) : str :=
  sa_pre a ++ sa_name a ++ sa_e1 a ++ [61] ++ sa_e2 a
  ++ (if sa_q a =? 0 then sa_val a else [sa_q a] ++ esc_val (sa_q a) (sa_val a) ++ [sa_q a]).
Definition sattr_ok (a : sattr) : bool :=
  is_ws (sa_pre a) && negb (match sa_pre a with [] => true | _ => false end) && is_ws (sa_e1 a) && is_ws (sa_e2 a)
  && aname_ok (sa_name a)
  && ((sa_q a =? 34) || (sa_q a =? 39)
      || ((sa_q a =? 0) && forallb unq_plain (sa_val a) && negb (match sa_val a with [] => true | _ => false end))).
Definition splain (l : list sattr) : attrs := map (fun a => (lower (sa_name a), sa_val a)) l.

(* a tag: its name as written (any case), attributes, white space before '>' *)
Record stag := mkSt { st_name : str; st_attrs : list sattr; st_end : str }.
Definition render_stag (t : stag) : str := [60] ++ st_name t ++ flat_map render_sattr (st_attrs t) ++ st_end t ++ [62].
Definition tagname_ok (n : str) : bool := forallb is_letter n && negb (match n with [] => true | _ => false end).
Definition stag_ok (lname : str) (t : stag) : bool :=
  tagname_ok (st_name t) && str_eqb (lower (st_name t)) lname && forallb sattr_ok (st_attrs t) && is_ws (st_end t).
(* an end tag: name as written, white space before '>' *)
Definition render_sclose (c : str * str) : str := [60; 47] ++ fst c ++ snd c ++ [62].
Definition sclose_ok (lname : str) (c : str * str) : bool :=
  tagname_ok (fst c) && str_eqb (lower (fst c)) lname && is_ws (snd c).

(* text: each character literal (escaped when & < >), as a decimal reference, or U+00A0 as &nbsp; *)
Inductive schar := ScLit (c : Z) | ScRef (c : Z) | ScNbsp.
Definition schar_val (x : schar) : Z := match x with ScLit c => c | ScRef c => c | ScNbsp => 160 end.
Definition render_schar (x : schar) : str :=
  match x with
  | ScLit c => esc_ch (-1) c
  | ScRef c => lit "&#" ++ dec_nonneg c ++ [59]
  | ScNbsp => lit "&nbsp;"
  end.
Definition schar_ok (x : schar) : bool :=
  match x with ScRef c => (0 <=? c) && negb ((128 <=? c) && (c <? 160)) | _ => true end.
Definition srun : Type := list schar.
Definition srun_val (r : srun) : str := map schar_val r.
Definition render_srun (r : srun) : str := flat_map render_schar r.

(* the content of a <P>: text runs separated by <br> tags (any case, with or without '/') *)
Record sbr := mkBr { br_name : str; br_ws : str; br_slash : bool }.
Definition render_sbr (b : sbr) : str := [60] ++ br_name b ++ br_ws b ++ (if br_slash b then [47; 62] else [62]).
Definition sbr_ok (b : sbr) : bool := tagname_ok (br_name b) && str_eqb (lower (br_name b)) (lit "br") && is_ws (br_ws b).
Definition scontent : Type := (list (srun * sbr) * srun)%type.
Definition render_scontent (c : scontent) : str :=
  flat_map (fun it : srun * sbr => render_srun (fst it) ++ render_sbr (snd it)) (fst c) ++ render_srun (snd c).
Definition scontent_text (c : scontent) : str :=
  flat_map (fun it : srun * sbr => srun_val (fst it)) (fst c) ++ srun_val (snd c).
Definition scontent_ok (c : scontent) : bool :=
  forallb (fun it : srun * sbr => forallb schar_ok (fst it) && sbr_ok (snd it)) (fst c) && forallb schar_ok (snd c).

(* <P attrs> content </P> white space *)
Record spar := mkSpar { sp_tag : stag; sp_lang : str; sp_content : scontent; sp_close : str * str; sp_after : str }.
Definition render_spar (p : spar) : str :=
  render_stag (sp_tag p) ++ render_scontent (sp_content p) ++ render_sclose (sp_close p) ++ sp_after p.
Definition spar_ok (default : str) (styles : list (str * str)) (p : spar) : bool :=
  stag_ok (lit "p") (sp_tag p) && scontent_ok (sp_content p) && sclose_ok (lit "p") (sp_close p) && is_ws (sp_after p)
  && str_eqb (match find_lang styles (splain (st_attrs (sp_tag p))) with Some l => l | None => default end) (sp_lang p).

(* <SYNC attrs> white space paragraphs </SYNC> white space;  start = the ms with zero padding *)
Record ssync := mkSsync { ss_tag : stag; ss_pad : nat; ss_ms : Z; ss_ws : str; ss_ps : list spar;
                          ss_close : str * str; ss_after : str }.
Definition render_ssync (s : ssync) : str :=
  render_stag (ss_tag s) ++ ss_ws s ++ flat_map render_spar (ss_ps s) ++ render_sclose (ss_close s) ++ ss_after s.
Definition opt_str_eqb (a : option str) (b : str) : bool := match a with Some x => str_eqb x b | None => false end.
Definition ssync_ok (default : str) (styles : list (str * str)) (s : ssync) : bool :=
  stag_ok (lit "sync") (ss_tag s) && is_ws (ss_ws s) && forallb (spar_ok default styles) (ss_ps s)
  && sclose_ok (lit "sync") (ss_close s) && is_ws (ss_after s)
  && opt_str_eqb (attr_get (lit "start") (splain (st_attrs (ss_tag s)))) (padded (ss_pad s) (ss_ms s)).

(* <BODY> white space syncs </BODY> </SAMI> ... *)
Record sdoc := mkSdoc { sd_open : stag; sd_ws : str; sd_syncs : list ssync; sd_tail : list ((str * str) * str) }.
Definition render_sdoc (d : sdoc) : str :=
  render_stag (sd_open d) ++ sd_ws d ++ flat_map render_ssync (sd_syncs d)
  ++ flat_map (fun c : (str * str) * str => render_sclose (fst c) ++ snd c) (sd_tail d).
Definition other_name (n : str) : bool :=
  tagname_ok n && negb (str_eqb (lower n) (lit "p")) && negb (str_eqb (lower n) (lit "sync")).
Definition sdoc_ok (default : str) (styles : list (str * str)) (d : sdoc) : bool :=
  other_name (st_name (sd_open d)) && forallb sattr_ok (st_attrs (sd_open d)) && is_ws (st_end (sd_open d))
  && is_ws (sd_ws d) && forallb (ssync_ok default styles) (sd_syncs d)
  && forallb (fun c : (str * str) * str => other_name (fst (fst c)) && is_ws (snd (fst c)) && is_ws (snd c)) (sd_tail d).

(* ---- what the document denotes (spec/SpecTimeTree.v) ------------------------------------------------------- *)
Definition sdoc_body (d : sdoc) : list async :=
  map (fun s => (ss_pad s, ss_ms s, map (fun p => (sp_lang p, has_visible_char (scontent_text (sp_content p)))) (ss_ps s)))
      (sd_syncs d).
Definition sdoc_langs (d : sdoc) : list str :=
  first_seen (flat_map (fun s => map sp_lang (ss_ps s)) (sd_syncs d)).
Definition sdoc_expected (d : sdoc) : result (list (str * list (Z * Z))) :=
  set_result (sami_tree_expected (sdoc_langs d) (sdoc_body d)).
