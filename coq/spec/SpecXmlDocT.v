(* C01, wave 7: DFXP documents AS TEXT.  An abstract document fixes the element structure (<tt>, any generic
   elements such as head / body / styling / layout, <div>s nested to any depth, <p>s with text, <br/> and <span>),
   the time expressions of every <p> as abstract stamps (spec/SpecTime.v), AND every lexical choice XML leaves
   open: the white space before each attribute, around '=', before '>' and inside end tags, the quote character of
   each attribute value, the position of begin / end / dur (in either order) among the other attributes, the
   position of xml:lang, white space between elements, an XML declaration, and for every character of character
   data whether it is written literally / as a predefined entity or as a decimal character reference.
   render_doc writes the text; flat gives the <div>s and <p>s in document order (what spec/SpecTimeTree.v's
   doc_expected is defined on).  Definitions only. *)
From Coq Require Import List ZArith Bool.
From PV Require Import lib.Sx lib.Str lib.Result lib.Dec.
From PV Require Import model.TimeRead model.TimeTree spec.SpecTime spec.SpecTimeTree.
Import ListNotations.
Open Scope Z_scope.

(* ---- lexical layer ------------------------------------------------------------------------------------------ *)
Definition xws (c : Z) : bool := (c =? 32) || (c =? 9) || (c =? 10) || (c =? 13).
Definition is_ws (s : str) : bool := forallb xws s.

Definition lc_letter (c : Z) : bool := (97 <=? c) && (c <=? 122).
Definition name_c (c : Z) : bool := lc_letter c || is_digit c || (c =? 58) || (c =? 45) || (c =? 95) || (c =? 46).
Definition name_ok (n : str) : bool :=
  match n with c :: t => lc_letter c && forallb name_c t | [] => false end.

(* layout of one attribute: white space before the name (at least one character), before and after '=', quote *)
Record afmt := mkAf { af_pre : str; af_e1 : str; af_e2 : str; af_dq : bool }.
Record rattr := mkRa { ra_fmt : afmt; ra_name : str; ra_val : str }.

Definition quote_of (f : afmt) : Z := if af_dq f then 34 else 39.

(* q = the quote character to be avoided (-1 in character data) *)
Definition esc_ch (q c : Z) : str :=
  if c =? 38 then lit "&amp;" else if c =? 60 then lit "&lt;" else if c =? 62 then lit "&gt;"
  else if c =? q then (if q =? 34 then lit "&quot;" else if q =? 39 then lit "&#39;" else [c]) else [c].
Definition esc_val (q : Z) (v : str) : str := flat_map (esc_ch q) v.

Definition render_attr (a : rattr) : str :=
  let f := ra_fmt a in let q := quote_of f in
  af_pre f ++ ra_name a ++ af_e1 f ++ [61] ++ af_e2 f ++ [q] ++ esc_val q (ra_val a) ++ [q].

Definition afmt_ok (f : afmt) : bool :=
  is_ws (af_pre f) && negb (match af_pre f with [] => true | _ => false end) && is_ws (af_e1 f) && is_ws (af_e2 f).
(* attribute names may carry upper-case letters after the first character (tts:fontFamily); the HTML parser
   lower-cases them *)
Definition uc_letter (c : Z) : bool := (65 <=? c) && (c <=? 90).
Definition aname_c (c : Z) : bool := name_c c || uc_letter c.
Definition aname_ok (n : str) : bool :=
  match n with c :: t => lc_letter c && forallb aname_c t | [] => false end.
Definition rattr_ok (a : rattr) : bool := afmt_ok (ra_fmt a) && aname_ok (ra_name a).

(* the attribute dictionary a consumer sees: names lower-cased *)
Definition plain (l : list rattr) : attrs := map (fun a => (lower (ra_name a), ra_val a)) l.

(* character data: each character literally (escaped when it is & < >) or as a decimal character reference *)
Definition tstr : Type := list (Z * bool).
Definition tstr_val (t : tstr) : str := map fst t.
Definition render_tchar (x : Z * bool) : str :=
  if snd x then lit "&#" ++ dec_nonneg (fst x) ++ [59] else esc_ch (-1) (fst x).
Definition render_tstr (t : tstr) : str := flat_map render_tchar t.
(* a reference names a code point; 128..159 are read through windows-1252 by bs4: outside the domain *)
Definition tchar_ok (x : Z * bool) : bool :=
  if snd x then (0 <=? fst x) && negb ((128 <=? fst x) && (fst x <? 160)) else true.
Definition tstr_ok (t : tstr) : bool := forallb tchar_ok t.

Record rtag := mkRt { rt_attrs : list rattr; rt_end : str }.
Definition render_open (name : str) (al : list rattr) (e : str) (selfclose : bool) : str :=
  [60] ++ name ++ flat_map render_attr al ++ e ++ (if selfclose then [47; 62] else [62]).
Definition render_close (name : str) (w : str) : str := [60; 47] ++ name ++ w ++ [62].
Definition rtag_ok (t : rtag) : bool := forallb rattr_ok (rt_attrs t) && is_ws (rt_end t).

(* ---- the content of a <p> ------------------------------------------------------------------------------------ *)
Inductive pel := PBr (w : str) | PSpan (t : rtag) (txt : tstr) (cw : str).
Definition pcontent : Type := (list (tstr * pel) * tstr)%type.

Definition render_pel (e : pel) : str :=
  match e with
  | PBr w => render_open (lit "br") [] w true
  | PSpan t txt cw => render_open (lit "span") (rt_attrs t) (rt_end t) false ++ render_tstr txt ++ render_close (lit "span") cw
  end.
Definition render_content (c : pcontent) : str :=
  flat_map (fun it : tstr * pel => render_tstr (fst it) ++ render_pel (snd it)) (fst c) ++ render_tstr (snd c).

Definition pel_ok (e : pel) : bool :=
  match e with PBr w => is_ws w | PSpan t txt cw => rtag_ok t && tstr_ok txt && is_ws cw end.
Definition content_ok (c : pcontent) : bool :=
  forallb (fun it : tstr * pel => tstr_ok (fst it) && pel_ok (snd it)) (fst c) && tstr_ok (snd c).

(* the characters a consumer is given *)
Definition content_text (c : pcontent) : str :=
  flat_map (fun it : tstr * pel => tstr_val (fst it) ++ match snd it with PBr _ => [] | PSpan _ txt _ => tstr_val txt end) (fst c)
  ++ tstr_val (snd c).
Definition has_visible_char (s : str) : bool := existsb (fun c => negb (is_space c)) s.

(* ---- attributes of <p>, <div>, <tt> ------------------------------------------------------------------------ *)
(* a timed paragraph: begin and end | dur somewhere among other attributes, in either order *)
Inductive pattrs :=
| PaTimed (l1 l2 l3 : list rattr) (swap : bool) (fb fc : afmt) (t : dfxp_p)
| PaFree (l : list rattr).

Definition begin_attr (fb : afmt) (t : dfxp_p) : rattr := mkRa fb (lit "begin") (texpr_render (p_begin t)).
Definition close_attr (fc : afmt) (t : dfxp_p) : rattr :=
  mkRa fc (if p_is_dur t then lit "dur" else lit "end") (texpr_render (p_close t)).

Definition pattrs_list (pa : pattrs) : list rattr :=
  match pa with
  | PaTimed l1 l2 l3 sw fb fc t =>
      l1 ++ [if sw then close_attr fc t else begin_attr fb t] ++ l2
         ++ [if sw then begin_attr fb t else close_attr fc t] ++ l3
  | PaFree l => l
  end.

Definition free_of_times (l : list rattr) : bool := time_free (plain l).
Definition pattrs_ok (pa : pattrs) : bool :=
  match pa with
  | PaTimed l1 l2 l3 _ fb fc t =>
      forallb rattr_ok (l1 ++ l2 ++ l3) && free_of_times (l1 ++ l2 ++ l3) && afmt_ok fb && afmt_ok fc && dfxp_p_dom t
  | PaFree l => forallb rattr_ok l
  end.

Definition lang_attrs (l1 : list rattr) (lang : option (afmt * str)) (l2 : list rattr) : list rattr :=
  l1 ++ match lang with Some (f, v) => [mkRa f (lit "xml:lang") v] | None => [] end ++ l2.
Definition free_of_lang (l : list rattr) : bool := forallb (fun a => negb (str_eqb (lower (ra_name a)) (lit "xml:lang"))) l.
Definition lang_attrs_ok (l1 : list rattr) (lang : option (afmt * str)) (l2 : list rattr) : bool :=
  forallb rattr_ok (l1 ++ l2) && free_of_lang (l1 ++ l2)
  && match lang with Some (f, _) => afmt_ok f | None => true end.

(* ---- the element forest (first child / next sibling) ------------------------------------------------------- *)
Inductive dforest :=
| FEnd (w : str)
| FP (pre : str) (pa : pattrs) (e : str) (c : pcontent) (cw : str) (next : dforest)
| FDiv (pre : str) (l1 : list rattr) (lang : option (afmt * str)) (l2 : list rattr) (e : str)
       (kids : dforest) (cw : str) (next : dforest)
| FElem (pre : str) (name : str) (t : rtag) (kids : dforest) (cw : str) (next : dforest)
| FEmpty (pre : str) (name : str) (t : rtag) (next : dforest).

Fixpoint render_forest (d : dforest) : str :=
  match d with
  | FEnd w => w
  | FP pre pa e c cw next =>
      pre ++ render_open (lit "p") (pattrs_list pa) e false ++ render_content c ++ render_close (lit "p") cw
      ++ render_forest next
  | FDiv pre l1 lang l2 e kids cw next =>
      pre ++ render_open (lit "div") (lang_attrs l1 lang l2) e false ++ render_forest kids
      ++ render_close (lit "div") cw ++ render_forest next
  | FElem pre name t kids cw next =>
      pre ++ render_open name (rt_attrs t) (rt_end t) false ++ render_forest kids ++ render_close name cw
      ++ render_forest next
  | FEmpty pre name t next =>
      pre ++ render_open name (rt_attrs t) (rt_end t) true ++ render_forest next
  end.

(* names of generic elements: not the three the reader looks for; HTML void elements and raw-text elements
   (html.parser treats their content differently) are outside the sublanguage, and so are template / rt / rp: bs4 files
   the strings below such an element under string classes that get_text() skips (audit 7) *)
Definition special_names : list str :=
  [lit "div"; lit "p"; lit "tt"; lit "br"; lit "area"; lit "base"; lit "col"; lit "embed"; lit "hr"; lit "img"; lit "input"; lit "keygen"; lit "link"; lit "menuitem"; lit "meta"; lit "param"; lit "source"; lit "track"; lit "wbr"; lit "basefont"; lit "bgsound"; lit "command"; lit "frame"; lit "image"; lit "isindex"; lit "nextid"; lit "spacer"; lit "script"; lit "style"; lit "title"; lit "textarea"; lit "template"; lit "rt"; lit "rp"].
Definition generic_name (n : str) : bool := name_ok n && negb (existsb (str_eqb n) special_names).
(* an empty-element tag may also be a <style .../> *)
Definition empty_name (n : str) : bool :=
  name_ok n && negb (existsb (str_eqb n) ([lit "div"; lit "p"; lit "tt"])).

(* a paragraph with visible text must be timed *)
Definition p_ok (pa : pattrs) (c : pcontent) : bool :=
  pattrs_ok pa && content_ok c
  && (negb (has_visible_char (content_text c)) || match pa with PaTimed _ _ _ _ _ _ _ => true | PaFree _ => false end).

Fixpoint forest_ok (d : dforest) : bool :=
  match d with
  | FEnd w => is_ws w
  | FP pre pa e c cw next => is_ws pre && p_ok pa c && is_ws e && is_ws cw && forest_ok next
  | FDiv pre l1 lang l2 e kids cw next =>
      is_ws pre && lang_attrs_ok l1 lang l2 && is_ws e && forest_ok kids && is_ws cw && forest_ok next
  | FElem pre name t kids cw next =>
      is_ws pre && generic_name name && rtag_ok t && forest_ok kids && is_ws cw && forest_ok next
  | FEmpty pre name t next => is_ws pre && empty_name name && rtag_ok t && forest_ok next
  end.

(* ---- what the document denotes: its <div>s and <p>s in document order ---------------------------------------- *)
Definition to_ap (pa : pattrs) (c : pcontent) : ap :=
  if has_visible_char (content_text c) then
    match pa with
    | PaTimed l1 l2 l3 _ _ _ t => APText (plain (l1 ++ l2 ++ l3)) t
    | PaFree l => APBlank (plain l)
    end
  else APBlank (plain (pattrs_list pa)).

Definition chain_of (chain : option (list (option str))) : list (option str) :=
  match chain with Some c => c | None => [] end.

(* chain = the xml:lang attributes of the enclosing <div>s, nearest first (None: not inside a <div>) *)
Fixpoint flat (chain : option (list (option str))) (d : dforest)
  : list (list (option str)) * list (option (list (option str)) * ap) :=
  match d with
  | FEnd _ => ([], [])
  | FP _ pa _ c _ next => let r := flat chain next in (fst r, (chain, to_ap pa c) :: snd r)
  | FDiv _ _ lang _ _ kids _ next =>
      let ch := option_map snd lang :: chain_of chain in
      let k := flat (Some ch) kids in let r := flat chain next in
      (ch :: fst k ++ fst r, snd k ++ snd r)
  | FElem _ _ _ kids _ next =>
      let k := flat chain kids in let r := flat chain next in (fst k ++ fst r, snd k ++ snd r)
  | FEmpty _ _ _ next => flat chain next
  end.

(* ---- whole documents ------------------------------------------------------------------------------------------ *)
Record xdoc := mkXd { xd_pi : option str; xd_pre : str; xd_l1 : list rattr; xd_lang : option (afmt * str);
                      xd_l2 : list rattr; xd_e : str; xd_body : dforest; xd_cw : str; xd_post : str }.

Definition render_doc (d : xdoc) : str :=
  match xd_pi d with Some c => [60; 63] ++ c ++ [62] | None => [] end
  ++ xd_pre d ++ render_open (lit "tt") (lang_attrs (xd_l1 d) (xd_lang d) (xd_l2 d)) (xd_e d) false
  ++ render_forest (xd_body d) ++ render_close (lit "tt") (xd_cw d) ++ xd_post d.

Definition xdoc_ok (d : xdoc) : bool :=
  match xd_pi d with Some c => negb (existsb (Z.eqb 62) c) | None => true end
  && is_ws (xd_pre d) && lang_attrs_ok (xd_l1 d) (xd_lang d) (xd_l2 d) && is_ws (xd_e d)
  && forest_ok (xd_body d) && is_ws (xd_cw d) && is_ws (xd_post d).

Definition xdoc_tt_lang (d : xdoc) : option str := option_map snd (xd_lang d).
Definition xdoc_divs (d : xdoc) := fst (flat None (xd_body d)).
Definition xdoc_ps (d : xdoc) := snd (flat None (xd_body d)).

(* the caption set the text denotes (per language, in document order; CaptionReadNoCaptions when there is none) *)
Definition xdoc_expected (default : str) (d : xdoc) : result (list (str * list (Z * Z))) :=
  set_result (doc_expected default (xdoc_tt_lang d) (xdoc_divs d) (xdoc_ps d)).
Definition xdoc_expected_alt (default : str) (d : xdoc) : result (list (str * list (Z * Z))) :=
  set_result (doc_expected_alt default (xdoc_tt_lang d) (xdoc_divs d) (xdoc_ps d)).
