(* C11 specification: which visible characters are italic / bold / underlined (from a caption's node list, and from
   WebVTT cue text), and when style nodes / tags are balanced and properly nested.  Definitions only. *)
From Coq Require Import List ZArith Bool.
From PV Require Import lib.Sx lib.Str model.TextNodes spec.SpecTextVtt.
Import ListNotations.
Open Scope Z_scope.

Definition flag3 := (bool * bool * bool)%type.
Definition stack_flags (stk : list style) : flag3 := (existsb st_i stk, existsb st_b stk, existsb st_u stk).

(* per visible (non white-space) character: the character and its flags; a style node opens / closes a span *)
Fixpoint flags_aux (ns : list node) (stk : list style) : list (Z * flag3) :=
  match ns with
  | [] => []
  | NText s :: t => map (fun c => (c, stack_flags stk)) (filter (fun c => negb (is_space c)) s) ++ flags_aux t stk
  | NBreak :: t => flags_aux t stk
  | NStyle true st :: t => flags_aux t (st :: stk)
  | NStyle false _ :: t => flags_aux t (tl stk)
  end.
Definition flags (ns : list node) : list (Z * flag3) := flags_aux ns [].

(* every end has a start before it, every start is closed: depth never negative, zero at the end *)
Fixpoint balanced_aux (ns : list node) (depth : nat) : bool :=
  match ns with
  | [] => Nat.eqb depth 0
  | NStyle true _ :: t => balanced_aux t (S depth)
  | NStyle false _ :: t => match depth with O => false | S d => balanced_aux t d end
  | _ :: t => balanced_aux t depth
  end.
Definition balanced (ns : list node) : bool := balanced_aux ns 0.

(* spans do not nest, and an end node repeats the style of its start node *)
Definition style_eqb (a b : style) : bool :=
  Bool.eqb (st_i a) (st_i b) && Bool.eqb (st_b a) (st_b b) && Bool.eqb (st_u a) (st_u b) &&
  match st_color a, st_color b with
  | None, None => true
  | Some x, Some y => str_eqb x y
  | _, _ => false
  end.
Fixpoint flat_aux (ns : list node) (cur : option style) : bool :=
  match ns with
  | [] => match cur with None => true | Some _ => false end
  | NStyle true st :: t => match cur with None => flat_aux t (Some st) | Some _ => false end
  | NStyle false st :: t => match cur with Some st0 => style_eqb st0 st && flat_aux t None | None => false end
  | _ :: t => flat_aux t cur
  end.
Definition flat_balanced (ns : list node) : bool := flat_aux ns None.

(* comparison of flags under a mask (which of i, b, u the target format carries) *)
Definition mask3 (m f : flag3) : flag3 :=
  let '(mi, mb, mu) := m in let '(fi, fb, fu) := f in (mi && fi, mb && fb, mu && fu).
Definition flag3_eqb (a b : flag3) : bool :=
  let '(a1, a2, a3) := a in let '(b1, b2, b3) := b in Bool.eqb a1 b1 && Bool.eqb a2 b2 && Bool.eqb a3 b3.
Fixpoint flags_eqb (m : flag3) (a b : list (Z * flag3)) : bool :=
  match a, b with
  | [], [] => true
  | (c, f) :: a', (d, g) :: b' => (c =? d) && flag3_eqb (mask3 m f) (mask3 m g) && flags_eqb m a' b'
  | _, _ => false
  end.
Definition ok_flags (m : flag3) (authored observed : list node) : bool := flags_eqb m (flags authored) (flags observed).

(* ---- WebVTT cue text: tags i / b / u, proper nesting, per character flags ------------------------------- *)
(* tag events in the order they are written: (is_start, kind) with kind 0 i, 1 b, 2 u *)
Definition tag_ev := (bool * Z)%type.
Fixpoint nested_aux (evs : list tag_ev) (stk : list Z) : bool :=
  match evs with
  | [] => match stk with [] => true | _ => false end
  | (true, k) :: t => nested_aux t (k :: stk)
  | (false, k) :: t => match stk with k0 :: stk' => (k =? k0) && nested_aux t stk' | [] => false end
  end.
Definition well_nested (evs : list tag_ev) : bool := nested_aux evs [].

Definition tag_kind (body : str) : option tag_ev :=
  if str_eqb body (lit "i") then Some (true, 0) else if str_eqb body (lit "b") then Some (true, 1)
  else if str_eqb body (lit "u") then Some (true, 2) else if str_eqb body (lit "/i") then Some (false, 0)
  else if str_eqb body (lit "/b") then Some (false, 1) else if str_eqb body (lit "/u") then Some (false, 2) else None.

Definition kinds_flags (stk : list Z) : flag3 :=
  (existsb (Z.eqb 0) stk, existsb (Z.eqb 1) stk, existsb (Z.eqb 2) stk).

(* one pass over the cue text: data / escape / tag states as in SpecTextVtt, plus the stack of open i/b/u tags.
   Result: None if an end tag does not match the innermost open tag or a tag is left open. *)
Inductive fmode : Type := FData | FEsc (acc : str) | FTag (acc : str).

Definition emit_chars (cs : str) (stk : list Z) (out : list (Z * flag3)) : list (Z * flag3) :=
  fold_left (fun o c => if is_space c then o else (c, kinds_flags stk) :: o) cs out.

Fixpoint vtt_flags_aux (m : fmode) (s : str) (stk : list Z) (out : list (Z * flag3)) : option (list (Z * flag3)) :=
  match s with
  | [] =>
      match stk with
      | [] => match m with
              | FEsc acc => Some (rev (emit_chars (rev acc) stk out))
              | _ => Some (rev out)
              end
      | _ => None
      end
  | c :: t =>
      match m with
      | FData =>
          if c =? 38 then vtt_flags_aux (FEsc [38]) t stk out
          else if c =? 60 then vtt_flags_aux (FTag []) t stk out
          else vtt_flags_aux FData t stk (emit_chars [c] stk out)
      | FEsc acc =>
          if c =? 59 then
            match vtt_entity (rev acc) with
            | Some v => vtt_flags_aux FData t stk (emit_chars v stk out)
            | None => vtt_flags_aux FData t stk (emit_chars (rev (59 :: acc)) stk out)
            end
          else if is_alnum c || ((c =? 35) && (match acc with [38] => true | _ => false end))
          then vtt_flags_aux (FEsc (c :: acc)) t stk out
          else if c =? 38 then vtt_flags_aux (FEsc [38]) t stk (emit_chars (rev acc) stk out)
          else if c =? 60 then vtt_flags_aux (FTag []) t stk (emit_chars (rev acc) stk out)
          else vtt_flags_aux FData t stk (emit_chars (rev (c :: acc)) stk out)
      | FTag acc =>
          if c =? 62 then
            match tag_kind (rev acc) with
            | Some (true, k) => vtt_flags_aux FData t (k :: stk) out
            | Some (false, k) =>
                match stk with
                | k0 :: stk' => if k =? k0 then vtt_flags_aux FData t stk' out else None
                | [] => None
                end
            | None => vtt_flags_aux FData t stk out
            end
          else vtt_flags_aux (FTag (c :: acc)) t stk out
      end
  end.
(* the flags of the characters of a whole cue text (line feeds are white space, hence skipped) *)
Definition vtt_flags (s : str) : option (list (Z * flag3)) := vtt_flags_aux FData s [] [].

Definition ok_vtt_flags (authored : list node) (cue_text : str) : bool :=
  match vtt_flags cue_text with
  | Some fl => flags_eqb (true, true, true) (flags authored) fl
  | None => false
  end.
