(* C05 / C06 wave 8: MIXED per-code doubling. Definitions only.
   emit_load_wm: the writer-style load line with the preamble and mode codes doubled and the codes INSIDE the rows (special /
   extended characters, mid-row codes, backspace) single - what pycaption's SCCWriter emits for rows of basic and special
   characters (request 507, harness doubling mode `writer-mixed`).
   ddb / mixed_ok: a computable sufficient condition for the hypothesis dd of proofs/SccMixedDoublingFacts.v (sound: ddb_sound). *)
From Coq Require Import List ZArith Bool.
From PV Require Import lib.Sx lib.Str lib.Result model.GenScc model.SccDecoder spec.Spec608 spec.SpecScc05 spec.SpecScc05Inline.
Import ListNotations.
Open Scope Z_scope.

(* a word whose second copy is redundant and whose single / doubled transmission can be exchanged *)
Definition dupable (w : Z) : bool :=
  (is_command w || is_pac w || (match special_of w with Some _ => true | None => false end)
   || (match extended_of w with Some _ => true | None => false end))
  && negb (is_pac w) && negb (is_cue_start w) && negb (memz w scc_mid_row_codes).

Definition opt_is (o : option Z) (w : Z) : bool := match o with Some x => x =? w | None => false end.
Definition tab_none (w : Z) : bool := match tab_of w with None => true | Some _ => false end.

Fixpoint ddb (prev : option Z) (m d : list Z) : bool :=
  match m, d with
  | [], [] => true
  | v :: m', v1 :: d' =>
      (v =? v1) && quiet v && tab_none v &&
      (ddb (Some v) m' d'
       || match d' with
          | v2 :: d'' => (v2 =? v) && dupable v && negb (opt_is prev v) && negb (opt_is (match m' with n :: _ => Some n | [] => None end) v) && ddb (Some v) m' d''
          | [] => false
          end)
  | _, _ => false
  end.

(* the words of a load with the codes INSIDE the rows (special / extended characters, mid-row codes, backspace) single and the
   preamble codes doubled: what pycaption's SCCWriter emits for rows of basic and special characters *)
Definition emit_row_m (r : row) : list Z := pac_unit true r ++ pack false (flat_map toks_of_item (rw_items r)) None.
Definition body_m (l : load) : list Z := flat_map emit_row_m l.
Definition emit_load_wm (l : load) : list Z :=
  (ctl true w_enm ++ ctl true w_rcl ++ body_m l) ++ ctl true w_edm ++ ctl true w_eoc.
(* is the mixed body inside the hypothesis of the theorems? (computed) *)
Definition mixed_ok (l : load) : bool := ddb (Some w_rcl) (body_m l) (flat_map (emit_row true) l).
