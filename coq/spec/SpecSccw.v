(* C17 specification, written from the property statement, CEA-608 and the Scenarist SCC file layout only
   (it does not mention the writer model or the generated tables).
     - odd parity of a byte; the CEA-608 basic character set; the row addressed by a preamble address code;
     - a parser for SCC documents: header, then timecoded lines of four-hex-digit words;
     - a decoder for the body of a pop-on load (rows of basic characters);
     - the property oracle  ok_output : input -> document -> verdict  and  ok_reread. *)
From Coq Require Import List ZArith QArith Qabs Bool.
From PV Require Import lib.Sx lib.Str.
Import ListNotations.
Open Scope Z_scope.

(* ---- bytes ------------------------------------------------------------------------------- *)
Fixpoint popcount_aux (n : nat) (b : Z) : Z :=
  match n with O => 0 | S k => b mod 2 + popcount_aux k (b / 2) end.
Definition odd_parity (b : Z) : bool :=
  (0 <=? b) && (b <? 256) && (popcount_aux 8 b mod 2 =? 1).

(* CEA-608 basic North American character set (7-bit codes 0x20..0x7f).  ASCII except for ten positions; 0x7f is
   the solid block U+2588 (pycaption's writer table does not contain it; a table that did would be accepted). *)
Definition cea_basic (b7 : Z) : option Z :=
  if (b7 <? 32) || (127 <? b7) then None else
  Some (match b7 with
        | 42 => 225 | 92 => 233 | 94 => 237 | 95 => 243 | 96 => 250
        | 123 => 231 | 124 => 247 | 125 => 209 | 126 => 241 | 127 => 9608
        | _ => b7 end).

(* Preamble address code, data channel 1: first byte 0x10..0x17, second byte 0x40..0x7f (parity stripped).
   Row by (first byte, bit 5 of the second byte); 0x10 addresses row 11 only with a second byte below 0x60. *)
Definition pac_row (hi lo : Z) : option Z :=
  let h := hi mod 128 in let l := lo mod 128 in
  if (l <? 64) then None else
  let second := 96 <=? l in
  match h with
  | 17 => Some (if second then 2 else 1)
  | 18 => Some (if second then 4 else 3)
  | 21 => Some (if second then 6 else 5)
  | 22 => Some (if second then 8 else 7)
  | 23 => Some (if second then 10 else 9)
  | 16 => if second then None else Some 11
  | 19 => Some (if second then 13 else 12)
  | 20 => Some (if second then 15 else 14)
  | _ => None
  end.
(* column / attribute part: 0x40|0x60 + 0x10 + 2*(indent/4); a PAC without the indent bit addresses column 0 *)
Definition pac_indent (lo : Z) : option Z :=
  let l := (lo mod 128) mod 32 in if 16 <=? l then Some ((l - 16) / 2 * 4) else Some 0.

(* ---- document parser --------------------------------------------------------------------- *)
Definition hex_val (c : Z) : option Z :=
  if (48 <=? c) && (c <=? 57) then Some (c - 48)
  else if (97 <=? c) && (c <=? 102) then Some (c - 87)
  else if (65 <=? c) && (c <=? 70) then Some (c - 55)
  else None.
Definition parse_word (w : str) : option (Z * Z) :=
  match w with
  | [a; b; c; d] =>
      match hex_val a, hex_val b, hex_val c, hex_val d with
      | Some a, Some b, Some c, Some d => Some (a * 16 + b, c * 16 + d)
      | _, _, _, _ => None
      end
  | _ => None
  end.

(* HH:MM:SS:FF, HH of two or more digits, the rest exactly two; value in frames (non-drop-frame, 30/s) *)
Definition two_digits (s : str) : option Z :=
  match s with [a; b] => if is_digit a && is_digit b then Some (digit_val a * 10 + digit_val b) else None | _ => None end.
Definition parse_timecode (s : str) : option Z :=
  match split_ch 58 s with
  | [h; m; sec; f] =>
      if (2 <=? length h)%nat then
        match int_of_digits h, two_digits m, two_digits sec, two_digits f with
        | Some h, Some m, Some sec, Some f =>
            if (m <? 60) && (sec <? 60) && (f <? 30) then Some (((h * 60 + m) * 60 + sec) * 30 + f) else None
        | _, _, _, _ => None
        end
      else None
  | _ => None
  end.

Definition parse_line (l : str) : option (Z * list (Z * Z)) :=
  match split_ch 9 l with
  | [tc; ws] =>
      match parse_timecode tc, opt_map parse_word (split_ch 32 ws) with
      | Some f, Some ws => Some (f, ws)
      | _, _ => None
      end
  | _ => None
  end.

Definition scenarist_header : str := lit "Scenarist_SCC V1.0".

(* header line, then (blank lines ignored) timecoded lines *)
Definition parse_exact (doc : str) : option (list (Z * list (Z * Z))) :=
  match split_ch 10 doc with
  | h :: rest =>
      if str_eqb h scenarist_header
      then opt_map parse_line (filter (fun l => match l with [] => false | _ => true end) rest)
      else None
  | [] => None
  end.
(* The statement does not fix the line terminator or trailing blanks: a document is also accepted when it parses
   after CR characters and blanks at the END of its lines are dropped (CRLF files, a blank after the last word). *)
Fixpoint drop_trailing (s : str) : str :=
  match s with
  | [] => []
  | c :: t => match drop_trailing t with
              | [] => if (c =? 13) || (c =? 32) then [] else [c]
              | t' => c :: t'
              end
  end.
Definition normalize_doc (doc : str) : str := join [10] (map drop_trailing (split_ch 10 doc)).
Definition parse_document (doc : str) : option (list (Z * list (Z * Z))) :=
  match parse_exact doc with
  | Some lines => Some lines
  | None => parse_exact (normalize_doc doc)
  end.

(* ---- pop-on load decoding ------------------------------------------------------------------ *)
Definition w_eqb (a b : Z * Z) : bool := (fst a =? fst b) && (snd a =? snd b).
Definition ENM := (148, 174).  Definition RCL := (148, 32).
Definition EDM := (148, 44).   Definition EOC := (148, 47).

Definition is_control (w : Z * Z) : bool := let h := fst w mod 128 in (16 <=? h) && (h <? 32).

(* rows of a load body: a PAC opens a row (a control code equal to the word just before it is the redundant
   copy and is ignored) - an indented PAC starts the row with that many blanks; other words carry two basic
   characters, 0x00 (0x80 with parity) being the filler.
   Any other control code, or a character outside the basic set, is not a body this property describes. *)
Fixpoint decode_body (ws : list (Z * Z)) (prev : option (Z * Z)) (rows : list (Z * str)) : option (list (Z * str)) :=
  match ws with
  | [] => Some (rev (map (fun r => (fst r, rev (snd r))) rows))
  | w :: t =>
      if is_control w then
        if match prev with Some p => w_eqb p w | None => false end then decode_body t None rows
        else match pac_row (fst w) (snd w), pac_indent (snd w) with
             | Some r, Some k => decode_body t (Some w) ((r, repeat 32 (Z.to_nat k)) :: rows)
             | _, _ => None
             end
      else
        match cea_basic (fst w mod 128), rows with
        | Some c1, (r, txt) :: rows' =>
            if snd w mod 128 =? 0 then decode_body t (Some w) ((r, c1 :: txt) :: rows')
            else match cea_basic (snd w mod 128) with
                 | Some c2 => decode_body t (Some w) ((r, c2 :: c1 :: txt) :: rows')
                 | None => None
                 end
        | _, _ => None
        end
  end.

(* a caption line as pycaption writes it: ENM ENM RCL RCL body EDM EDM EOC EOC; returns the body *)
Definition strip_exact (ws : list (Z * Z)) : option (list (Z * Z)) :=
  match ws with
  | a :: b :: c :: d :: rest =>
      if w_eqb a ENM && w_eqb b ENM && w_eqb c RCL && w_eqb d RCL then
        match rev rest with
        | z :: y :: x :: w :: body_rev =>
            if w_eqb w EDM && w_eqb x EDM && w_eqb y EOC && w_eqb z EOC then Some (rev body_rev) else None
        | _ => None
        end
      else None
  | _ => None
  end.
(* The statement asks for a pop-on load, not for this exact framing: any line is accepted that selects pop-on mode
   (leading ENM / RCL words in any order and number, at least one RCL), then carries the body, then - after any
   number of EDM words - ends in ONE End-Of-Caption (single or doubled). *)
Fixpoint drop_while (p : Z * Z -> bool) (ws : list (Z * Z)) : list (Z * Z) :=
  match ws with [] => [] | w :: t => if p w then drop_while p t else ws end.
Fixpoint take_while (p : Z * Z -> bool) (ws : list (Z * Z)) : list (Z * Z) :=
  match ws with [] => [] | w :: t => if p w then w :: take_while p t else [] end.
Definition strip_relaxed (ws : list (Z * Z)) : option (list (Z * Z)) :=
  let lead := take_while (fun w => w_eqb w ENM || w_eqb w RCL) ws in
  let rest := drop_while (fun w => w_eqb w ENM || w_eqb w RCL) ws in
  if negb (existsb (fun w => w_eqb w RCL) lead) then None else
  match rev rest with
  | z :: r1 =>
      if negb (w_eqb z EOC) then None else
      let r2 := match r1 with y :: r => if w_eqb y EOC then r else r1 | [] => r1 end in
      Some (rev (drop_while (fun w => w_eqb w EDM) r2))
  | [] => None
  end.
Definition strip_load (ws : list (Z * Z)) : option (list (Z * Z)) :=
  match strip_exact ws with Some b => Some b | None => strip_relaxed ws end.
Definition is_clear_line (ws : list (Z * Z)) : bool :=
  match ws with [a; b] => w_eqb a EDM && w_eqb b EDM | _ => false end.

(* ---- words of a text ------------------------------------------------------------------------ *)
Definition is_blank (c : Z) : bool := (c =? 32) || (c =? 10).
Fixpoint words_aux (s : str) (cur : str) : list str :=
  match s with
  | [] => match cur with [] => [] | _ => [rev cur] end
  | c :: t => if is_blank c then match cur with [] => words_aux t [] | _ => rev cur :: words_aux t [] end
              else words_aux t (c :: cur)
  end.
Definition words (s : str) : list str := words_aux s [].

(* pieces refine the words: every word appears whole, or - only when longer than `width` - as the
   concatenation of consecutive pieces; nothing else appears *)
Fixpoint eat_pieces (fuel : nat) (w : str) (pieces : list str) : option (list str) :=
  match fuel with
  | O => None
  | S f =>
      match w, pieces with
      | [], _ => Some pieces
      | _, p :: ps => match p with
                      | [] => None
                      | _ => if is_prefix p w then eat_pieces f (skipn (length p) w) ps else None
                      end
      | _, [] => None
      end
  end.
Fixpoint refines (width : nat) (ws pieces : list str) : bool :=
  match ws with
  | [] => match pieces with [] => true | _ => false end
  | w :: ws' =>
      match pieces with
      | p :: ps =>
          if str_eqb p w then refines width ws' ps
          else if (width <? length w)%nat
               then match eat_pieces (S (length w)) w pieces with
                    | Some rest => refines width ws' rest
                    | None => false
                    end
               else false
      | [] => false
      end
  end.

Fixpoint rows_distinct (l : list Z) : bool :=
  match l with [] => true | a :: t => negb (existsb (Z.eqb a) t) && rows_distinct t end.

(* ---- the oracle ------------------------------------------------------------------------------ *)
Record cue := mkCue { q_text : str; q_start : Q; q_end : Q }.

Definition frame_us : Q := 1001000 # 30.
Definition q_within (a b tol : Q) : bool := Qle_bool (Qabs (a - b)) tol.

Fixpoint index_of (w : Z * Z) (ws : list (Z * Z)) (i : Z) : option Z :=
  match ws with [] => None | x :: t => if w_eqb x w then Some i else index_of w t (i + 1) end.

Fixpoint nondecreasing (l : list Z) : bool :=
  match l with a :: ((b :: _) as t) => (a <=? b) && nondecreasing t | _ => true end.

(* verdict codes: 0 ok; 1 not a Scenarist document of four-hex-digit words; 2 a byte without odd parity;
   3 not one load per caption; 4 a load whose body is not rows of basic characters addressed by PACs,
   a row outside 1..15, or a row addressed twice (its text would be overwritten); 5 a row longer than 32 columns; 6 text not preserved up to breaking at spaces;
   7 timecodes decrease; 8 a caption not visible within three frames of its start *)
Definition check_load (c : cue) (line : Z * list (Z * Z)) : Z :=
  match strip_load (snd line) with
  | None => 3
  | Some body =>
      match decode_body body None [] with
      | None => 4
      | Some rows =>
          if negb (forallb (fun r => (1 <=? fst r) && (fst r <=? 15)) rows) then 4
          else if negb (rows_distinct (map fst rows)) then 4
          else if negb (forallb (fun r => (length (snd r) <=? 32)%nat) rows) then 5
          else if negb (refines 32 (words (q_text c)) (flat_map (fun r => words (snd r)) rows)) then 6
          else match index_of EOC (snd line) 0 with
               | None => 3
               | Some k => if q_within (inject_Z (fst line + k) * frame_us) (q_start c) (3 * frame_us) then 0 else 8
               end
      end
  end.

Fixpoint check_loads (cs : list cue) (lines : list (Z * list (Z * Z))) : Z :=
  match cs, lines with
  | [], [] => 0
  | c :: cs', l :: ls' => let v := check_load c l in if v =? 0 then check_loads cs' ls' else v
  | _, _ => 3
  end.

Definition ok_output (input : list cue) (doc : str) : Z :=
  match parse_document doc with
  | None => 1
  | Some lines =>
      if negb (forallb (fun l => forallb (fun w => odd_parity (fst w) && odd_parity (snd w)) (snd l)) lines) then 2
      else
        let loads := filter (fun l => negb (is_clear_line (snd l))) lines in
        let v := check_loads input loads in
        if negb (v =? 0) then v
        else if negb (nondecreasing (map fst lines)) then 7 else 0
  end.

(* re-read through the real reader: one caption per cue, the same words (over-long words possibly in
   pieces), start = the moment the load is displayed, within three frames (+ 2^-10 us of float noise) *)
Fixpoint ok_reread (input : list cue) (obs : list (Q * str)) : Z :=
  match input, obs with
  | [], [] => 0
  | c :: cs, (st, txt) :: os =>
      if negb (refines 32 (words (q_text c)) (words txt)) then 6
      else if negb (q_within st (q_start c) (3 * frame_us + (1 # 1024))) then 8
      else ok_reread cs os
  | _, _ => 3
  end.
