(* C05 specification: pop-on programs, their CEA-608 encoding, the screen a 608 decoder shows, and the decidable
   oracle comparing captions read with that screen. Written from the property statement and spec/Spec608.v only.
   Definitions only.

   A program is a list of loads (one caption memory each: ENM RCL rows EOC); a row is a preamble address code
   (row 1..15, indent 0,4,..,28, optional tab offset 1..3, attribute bits rw_style 0..15) followed by items. *)
From Coq Require Import List ZArith QArith Qabs Bool.
From PV Require Import lib.Sx lib.Str lib.Result spec.Spec608.
Import ListNotations.
Open Scope Z_scope.

Inductive item : Type :=
| Ch (c : Z)                       (* basic character (code point) *)
| Sp (i : Z)                       (* special character 0..15 *)
| Ext (standin : Z) (grp i : Z)    (* stand-in basic character followed by extended character (group 0/1, 0..31) *)
| Mid (a : Z)                      (* mid-row code 0..15: colours 0,2,..,12 (+1 underline), 14 italics, 15 italics underline *)
| Bs.                              (* backspace *)

(* rw_style: the attribute bits of the preamble address code: at indent 0 the full attribute 0..15 (colour x underline,
   14 italics, 15 italics underline) or, wave 7, 16 / 17 = the INDENT form of the code with indent 0 (white, optional
   underline: the code pycaption's SCCWriter uses for column 0, second byte 0x50 / 0x70); at an indent > 0 only the
   underline bit (0 / 1) exists *)
Record row : Type := mkRow { rw_row : Z; rw_indent : Z; rw_tab : Z; rw_style : Z; rw_items : list item }.
Definition is_italic_attr (a : Z) : bool := (a =? 14) || (a =? 15).
Definition rw_ital (r : row) : bool := (rw_indent r =? 0) && is_italic_attr (rw_style r).
Definition load : Type := list row.
Record program : Type := mkProg { pg_doubled : bool; pg_loads : list load }.

(* ---- emit: the code words of a load ------------------------------------------------------------- *)
Definition basic_code (cp : Z) : Z := hd 0 (filter (fun c => basic_608 c =? cp) (zrange 32 95)).

Inductive tok : Type := TCh (c : Z) | TCode (w : Z).
Definition ext_word (g i : Z) : Z := if g =? 0 then extended1_word i else extended2_word i.
Definition toks_of_item (it : item) : list tok :=
  match it with
  | Ch c => [TCh c]
  | Sp i => [TCode (special_word i)]
  | Ext s g i => [TCh s; TCode (ext_word g i)]
  | Mid a => [TCode (midrow_word a)]
  | Bs => [TCode (ctrl_word 33)]
  end.

Definition ctl (d : bool) (w : Z) : list Z := if d then [w; w] else [w].
Definition flush (pend : option Z) : list Z := match pend with Some b => [b * 256 + 128] | None => [] end.

(* two characters per word; an odd character is padded with the filler 0x80 before a control code / at the end *)
Fixpoint pack (d : bool) (ts : list tok) (pend : option Z) : list Z :=
  match ts with
  | [] => flush pend
  | TCh c :: t =>
      match pend with
      | None => pack d t (Some (odd_parity (basic_code c)))
      | Some b => (b * 256 + odd_parity (basic_code c)) :: pack d t None
      end
  | TCode w :: t => flush pend ++ ctl d w ++ pack d t None
  end.

Definition pac_attr (r : row) : Z :=
  if rw_indent r =? 0 then rw_style r else 16 + (rw_indent r / 4) * 2 + rw_style r mod 2.
Definition pac_unit (d : bool) (r : row) : list Z :=
  let u := pac_word (rw_row r) (pac_attr r) :: (if 0 <? rw_tab r then [tab_word (rw_tab r)] else []) in
  if d then u ++ u else u.
Definition emit_row (d : bool) (r : row) : list Z := pac_unit d r ++ pack d (flat_map toks_of_item (rw_items r)) None.
Definition emit_load (d : bool) (l : load) : list Z :=
  ctl d (ctrl_word 46) ++ ctl d (ctrl_word 32) ++ flat_map (emit_row d) l ++ ctl d (ctrl_word 47).
Definition emit_clear (d : bool) : list Z := ctl d (ctrl_word 44).

(* ---- the 608 screen -------------------------------------------------------------------------------- *)
(* a cell of a screen row: a character with its italic attribute; a mid-row code occupies a cell shown as a blank,
   which a caption reader may render as a space or not at all: Opt *)
Inductive cell : Type := Cell (c : Z) (it : bool) | Opt.

Definition ext_char (g i : Z) : Z := nth (Z.to_nat i) (if g =? 0 then extended1_608 else extended2_608) 0.

Fixpoint row_cells (its : list item) (acc : list cell) (ital : bool) : list cell :=
  match its with
  | [] => acc
  | Ch c :: t => row_cells t (acc ++ [Cell c ital]) ital
  | Sp i :: t => row_cells t (acc ++ [Cell (nth (Z.to_nat i) special_608 0) ital]) ital
  | Ext _ g i :: t => row_cells t (acc ++ [Cell (ext_char g i) ital]) ital     (* replaces its stand-in *)
  | Mid a :: t => row_cells t (acc ++ [Opt]) (is_italic_attr a)      (* any non-italic mid-row code ends italics *)
  | Bs :: t => row_cells t (removelast acc) ital
  end.
Definition cells_of (r : row) : list cell := row_cells (rw_items r) [] (rw_ital r).

(* expected caption: address of its first row, and its lines *)
Record ecap : Type := mkE { e_row : Z; e_col : Z; e_lines : list (list cell) }.

(* rows on consecutive screen rows (in transmission order) are the lines of one caption *)
Fixpoint group_rows (l : load) (cur : option (ecap * Z)) : list ecap :=
  match l with
  | [] => match cur with Some (e, _) => [e] | None => [] end
  | r :: t =>
      match cur with
      | Some (e, lastrow) =>
          if rw_row r =? lastrow + 1
          then group_rows t (Some (mkE (e_row e) (e_col e) (e_lines e ++ [cells_of r]), rw_row r))
          else e :: group_rows t (Some (mkE (rw_row r) (rw_indent r + rw_tab r) [cells_of r], rw_row r))
      | None => group_rows t (Some (mkE (rw_row r) (rw_indent r + rw_tab r) [cells_of r], rw_row r))
      end
  end.
Definition expected_load (l : load) : list ecap := group_rows l None.

(* ---- observation ------------------------------------------------------------------------------------- *)
Inductive onode : Type := OText (s : str) | OBreak | OStyle (on : bool).
Record ocap : Type := mkO { o_start : Q; o_end : Q; o_nodes : list onode; o_xy : option (Q * Q) }.

(* lines of (character, italic) of an observed caption *)
Fixpoint obs_lines (ns : list onode) (cur : list (Z * bool)) (it : bool) : list (list (Z * bool)) :=
  match ns with
  | [] => [cur]
  | OText s :: t => obs_lines t (cur ++ map (fun c => (c, it)) s) it
  | OBreak :: t => cur :: obs_lines t [] it
  | OStyle b :: t => obs_lines t cur b
  end.

(* italic spans balanced: on/off alternate, starting with on, closed at the end *)
Fixpoint balanced (ns : list onode) (on : bool) : bool :=
  match ns with
  | [] => negb on
  | OStyle true :: t => negb on && balanced t true
  | OStyle false :: t => on && balanced t false
  | _ :: t => balanced t on
  end.

Fixpoint drop_spaces (l : list (Z * bool)) : list (Z * bool) :=
  match l with (c, _) :: t => if is_space c then drop_spaces t else l | [] => [] end.

(* blanks at the end of a line are not part of what is shown: trailing blank cells of the screen row and trailing
   spaces of the observed line are ignored *)
Definition cell_blank (c : cell) : bool := match c with Cell ch _ => is_space ch | Opt => true end.
Fixpoint rstrip_cells (e : list cell) : list cell :=
  match e with
  | [] => []
  | c :: t => match rstrip_cells t with
              | [] => if cell_blank c then [] else [c]
              | t' => c :: t'
              end
  end.
Fixpoint rstrip_obs (o : list (Z * bool)) : list (Z * bool) :=
  match o with
  | [] => []
  | x :: t => match rstrip_obs t with
              | [] => if is_space (fst x) then [] else [x]
              | t' => x :: t'
              end
  end.

Fixpoint match_cells (e : list cell) (o : list (Z * bool)) : bool :=
  match e with
  | [] => match o with [] => true | _ => false end
  | Opt :: e' =>                                   (* the blank cell of a mid-row code: no space, or one *)
      match_cells e' o
      || match o with (c', _) :: o' => is_space c' && match_cells e' o' | [] => false end
  | Cell c it :: e' =>
      match o with
      | (c', it') :: o' => (c =? c') && (is_space c || Bool.eqb it it') && match_cells e' o'
      | [] => false
      end
  end.
Definition match_line (e : list cell) (o : list (Z * bool)) : bool := match_cells (rstrip_cells e) (rstrip_obs o).

Fixpoint match_lines (e : list (list cell)) (o : list (list (Z * bool))) : bool :=
  match e, o with
  | [], [] => true
  | x :: e', y :: o' => match_line x y && match_lines e' o'
  | _, _ => false
  end.

Definition q_near9 (a b : Q) : bool := Qle_bool (Qabs (a - b)) (1 # 1000000000).

Definition cap_ok (e : ecap) (o : ocap) : bool :=
  match_lines (e_lines e) (obs_lines (o_nodes o) [] false)
  && balanced (o_nodes o) false
  && match o_xy o with
     | Some (x, y) => let '(ex, ey) := layout_608 (e_row e) (e_col e) in q_near9 x ex && q_near9 y ey
     | None => false
     end
  && negb (Qle_bool (o_end o) (o_start o)).

(* the captions of one load: same times; returns the rest of the observation *)
Fixpoint load_ok (es : list ecap) (os : list ocap) (span : option (Q * Q)) : option (list ocap * option (Q * Q)) :=
  match es with
  | [] => Some (os, span)
  | e :: es' =>
      match os with
      | o :: os' =>
          if cap_ok e o && match span with
                           | Some (s, t) => Qeq_bool s (o_start o) && Qeq_bool t (o_end o)
                           | None => true
                           end
          then load_ok es' os' (Some (o_start o, o_end o))
          else None
      | [] => None
      end
  end.

(* loads in transmission order, strictly increasing starts *)
Fixpoint loads_ok (ls : list load) (os : list ocap) (prev_start : option Q) : bool :=
  match ls with
  | [] => match os with [] => true | _ => false end
  | l :: ls' =>
      match load_ok (expected_load l) os None with
      | Some (rest, Some (s, _)) =>
          match prev_start with Some p => negb (Qle_bool s p) | None => true end && loads_ok ls' rest (Some s)
      | _ => false
      end
  end.

Definition ok_c05 (p : program) (obs : result (list ocap)) : bool :=
  match obs with
  | Ok caps => loads_ok (pg_loads p) caps None
  | Err _ => false
  end.

(* ---- domain ("well-formed pop-on stream") ----------------------------------------------------------- *)
Definition is_basic (c : Z) : bool := (basic_608 (basic_code c) =? c) && negb (c =? 9608) && (32 <=? basic_code c).
Definition mem (x : Z) (l : list Z) : bool := existsb (Z.eqb x) l.

Fixpoint items_ok (its : list item) (prev : option item) : bool :=
  match its with
  | [] => true
  | it :: t =>
      (match it with
       | Ch c => is_basic c
       | Sp i => (0 <=? i) && (i <? 16) && negb (i =? 9)
                 && negb (match prev with Some (Sp j) => i =? j | _ => false end)
       | Ext s g i => is_basic s && negb (s =? 32) && (0 <=? g) && (g <=? 1) && (0 <=? i) && (i <? 32)
       | Mid a => (0 <=? a) && (a <? 16) && match t with Ch 32 :: _ => false | _ => true end
       | Bs => match prev with Some (Ch _) | Some (Sp _) | Some (Ext _ _ _) => true | _ => false end
       end) && items_ok t (Some it)
  end.

Definition cell_space (c : cell) : bool := match c with Cell ch _ => ch =? 32 | Opt => false end.
Definition cell_vis (c : cell) : bool := match c with Cell ch _ => negb (ch =? 32) | Opt => false end.
Definition row_ok (r : row) : bool :=
  let cs := cells_of r in
  (1 <=? rw_row r) && (rw_row r <=? 15) && mem (rw_indent r) indents_608 && (0 <=? rw_tab r) && (rw_tab r <=? 3)
  && (0 <=? rw_style r) && (rw_style r <? 18) && ((rw_indent r =? 0) || (rw_style r <=? 1))
  && items_ok (rw_items r) None
  && existsb cell_vis cs
  && negb (match cs with c :: _ => cell_space c | [] => true end)
  && negb (cell_space (last cs Opt))
  && (rw_indent r + rw_tab r + Z.of_nat (length cs) <=? 32).

Fixpoint distinct (l : list Z) : bool :=
  match l with [] => true | x :: t => negb (mem x t) && distinct t end.

(* a mid-row code at the very start of a row makes the reader append a blank to the text transmitted before it; after
   a row that already fills its 32 cells this trips the length check, so that shape is outside the domain (counted) *)
Definition starts_with_mid (r : row) : bool :=
  match rw_items r with Mid _ :: _ => true | _ => false end.
Fixpoint no_mid_after_full (l : load) : bool :=
  match l with
  | r :: ((r' :: _) as t) =>
      negb ((32 <=? Z.of_nat (length (cells_of r))) && starts_with_mid r') && no_mid_after_full t
  | _ => true
  end.

(* (no_mid_after_full was part of load_wf until the reader stripped trailing blanks before a repositioning too) *)
Definition load_wf (l : load) : bool :=
  match l with [] => false | _ => forallb row_ok l && distinct (map rw_row l) end.

(* before fix #22 the position tracker of the reader was shared by all loads: a load whose first row equals, or is
   one below, the last row addressed by the previous load was positioned relative to the previous caption. The
   predicate is no longer part of the domain; the harness counts the shape. *)
Fixpoint loads_independent (ls : list load) (prev_last : option Z) : bool :=
  match ls with
  | [] => true
  | l :: t =>
      let first := match l with r :: _ => rw_row r | [] => 0 end in
      let lastr := rw_row (last l (mkRow 0 0 0 0 [])) in
      (match prev_last with Some p => negb ((first =? p) || (first =? p + 1)) | None => true end)
      && loads_independent t (Some lastr)
  end.

(* ---- the wider domain on which the harness evaluates the oracle (the theorems are stated on dom_c05 / load_wf). The 608
        screen semantics above (row_cells, group_rows) already covers: blanks at either end of a row, a blank right after a
        mid-row code, a backspace with nothing to erase in its row (no effect on a 608 screen), two backspaces in a row, the
        transparent space (a blank), a row number used twice in a load in chunks that do not overlap, at least four columns apart (a new caption).
        Still excluded (each counted by the harness): a backspace that lands on the cell of a mid-row code (it would erase
        the attribute cell), an immediately repeated special character (the second copy is the redundancy copy), the same row addressed
        again within three columns or over cells already written (read as a tab offset / overwrite), PAC PAC TO TO. --------------------------------------- *)
Fixpoint items_ok_wide (its : list item) (prev : option item) : bool :=
  match its with
  | [] => true
  | it :: t =>
      (match it with
       | Ch c => is_basic c
       | Sp i => (0 <=? i) && (i <? 16) && negb (match prev with Some (Sp j) => i =? j | _ => false end)
       | Ext s g i => is_basic s && negb (s =? 32) && (0 <=? g) && (g <=? 1) && (0 <=? i) && (i <? 32)
       | Mid a => (0 <=? a) && (a <? 16)
       | Bs => match prev with Some (Mid _) => false | _ => true end
       end) && items_ok_wide t (Some it)
  end.
(* no backspace ever lands on the cell of a mid-row code, directly or after erasing the cells written since (the reader keeps
   no cell for a non-italics mid-row code, so the erased cell would be ambiguous; counted by the harness) *)
Fixpoint bs_clear_of_mid (its : list item) (st : list bool) : bool :=
  match its with
  | [] => true
  | Bs :: t => match st with [] => bs_clear_of_mid t [] | m :: st' => negb m && bs_clear_of_mid t st' end
  | Mid _ :: t => bs_clear_of_mid t (true :: st)
  | _ :: t => bs_clear_of_mid t (false :: st)
  end.
Definition row_ok_wide (r : row) : bool :=
  let cs := cells_of r in
  (1 <=? rw_row r) && (rw_row r <=? 15) && mem (rw_indent r) indents_608 && (0 <=? rw_tab r) && (rw_tab r <=? 3)
  && (0 <=? rw_style r) && (rw_style r <? 18) && ((rw_indent r =? 0) || (rw_style r <=? 1))
  && items_ok_wide (rw_items r) None && bs_clear_of_mid (rw_items r) []
  && existsb cell_vis cs
  && (rw_indent r + rw_tab r + Z.of_nat (length cs) <=? 32).
(* a screen row used twice in a load: the later chunk starts clear of the earlier one (no overwriting) and its preamble
   column is not the earlier chunk's column + 0..3 (that would read as a tab offset, not as a new position) *)
Fixpoint rows_apart (l : load) : bool :=
  match l with
  | [] => true
  | r :: t => forallb (fun r' =>
                 let c := rw_indent r + rw_tab r in let c' := rw_indent r' + rw_tab r' in
                 negb (rw_row r =? rw_row r')
                 || (((c + Z.of_nat (length (cells_of r)) <=? c') || (c' + Z.of_nat (length (cells_of r')) <=? c))
                     && (4 <=? Z.abs (c - c'))
                     && negb ((c <=? rw_indent r') && (rw_indent r' <=? c + 3)))) t
              && rows_apart t
  end.
Definition load_wf_wide (l : load) : bool := match l with [] => false | _ => forallb row_ok_wide l && rows_apart l end.
Definition dom_c05_wide (p : program) : bool :=
  match pg_loads p with [] => false | _ => forallb load_wf_wide (pg_loads p) end.

Definition dom_c05 (p : program) : bool :=
  match pg_loads p with [] => false | _ => forallb load_wf (pg_loads p) end.
