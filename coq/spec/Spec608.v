(* CEA-608 (line 21, data channel 1) code assignments, transcribed independently of pycaption's constants.py:
   odd parity, the basic character set, the 16 special characters, the two extended sets of 32, preamble address
   codes (row and indent addressing), tab offsets, and the safe-area layout of a (row, column) cursor address.
   Characters are Unicode code points. Definitions only. *)
From Coq Require Import List ZArith QArith Bool.
Import ListNotations.
Open Scope Z_scope.

(* ---- bytes: 7 data bits + odd parity in bit 7 ------------------------------------------------ *)
Definition bit (b : Z) (i : Z) : Z := if Z.testbit b i then 1 else 0.
Definition ones7 (b : Z) : Z := bit b 0 + bit b 1 + bit b 2 + bit b 3 + bit b 4 + bit b 5 + bit b 6.
Definition odd_parity (b7 : Z) : Z := let b := b7 mod 128 in if Z.even (ones7 b) then b + 128 else b.
Definition has_odd_parity (b : Z) : bool := (0 <=? b) && (b <? 256) && (odd_parity b =? b).
Definition word (b1 b2 : Z) : Z := odd_parity b1 * 256 + odd_parity b2.

(* ---- basic character set: 0x20..0x7f, ASCII except ten positions -------------------------------- *)
Definition basic_608 (c : Z) : Z :=
  if c =? 42 then 225        (* 2a a-acute *)
  else if c =? 92 then 233   (* 5c e-acute *)
  else if c =? 94 then 237   (* 5e i-acute *)
  else if c =? 95 then 243   (* 5f o-acute *)
  else if c =? 96 then 250   (* 60 u-acute *)
  else if c =? 123 then 231  (* 7b c-cedilla *)
  else if c =? 124 then 247  (* 7c division sign *)
  else if c =? 125 then 209  (* 7d N-tilde *)
  else if c =? 126 then 241  (* 7e n-tilde *)
  else if c =? 127 then 9608 (* 7f solid block *)
  else c.

(* ---- special characters: 0x11 0x30..0x3f --------------------------------------------------------- *)
Definition special_608 : list Z :=
  [174; 176; 189; 191; 8482; 162; 163; 9834; 224; 32 (* transparent space *); 232; 226; 234; 238; 244; 251].

(* ---- extended characters: 0x12 0x20..0x3f (Spanish / miscellaneous / French) and
        0x13 0x20..0x3f (Portuguese / German / Danish) ------------------------------------------------ *)
Definition extended1_608 : list Z :=
  [193; 201; 211; 218; 220; 252; 8216; 161; 42; 8217; 8212; 169; 8480; 8226; 8220; 8221;
   192; 194; 199; 200; 202; 203; 235; 206; 207; 239; 212; 217; 249; 219; 171; 187].
Definition extended2_608 : list Z :=
  [195; 227; 205; 204; 236; 210; 242; 213; 245; 123; 125; 92; 94; 95; 166; 126;
   196; 228; 214; 246; 223; 165; 164; 124; 197; 229; 216; 248; 9484; 9488; 9492; 9496].

(* ---- preamble address codes ------------------------------------------------------------------------ *)
(* first byte (7 bits), bit 5 of the second byte (0 = 0x40.., 1 = 0x60..) -> row *)
Definition pac_row (b1 : Z) (high_half : bool) : option Z :=
  match b1, high_half with
  | 17, false => Some 1  | 17, true => Some 2
  | 18, false => Some 3  | 18, true => Some 4
  | 21, false => Some 5  | 21, true => Some 6
  | 22, false => Some 7  | 22, true => Some 8
  | 23, false => Some 9  | 23, true => Some 10
  | 16, false => Some 11
  | 19, false => Some 12 | 19, true => Some 13
  | 20, false => Some 14 | 20, true => Some 15
  | _, _ => None
  end.

(* second byte low five bits: 0..15 colour / italics attributes at column 0, 16..31 indent 0,4,..,28 (x2 underline) *)
Definition pac_col (attr : Z) : Z := if attr <? 16 then 0 else ((attr - 16) / 2) * 4.
Definition pac_italics (attr : Z) : bool := (attr =? 14) || (attr =? 15).

(* decoding of a parity-correct word as a preamble address code *)
Definition pac_608 (w : Z) : option (Z * Z) :=
  let b1 := w / 256 in let b2 := w mod 256 in
  if has_odd_parity b1 && has_odd_parity b2 then
    let l7 := b2 mod 128 in
    if l7 <? 64 then None else
    match pac_row (b1 mod 128) (96 <=? l7) with
    | Some r => Some (r, pac_col (l7 mod 32))
    | None => None
    end
  else None.

(* encoding: row 1..15, attr 0..31 *)
Definition pac_bytes (row : Z) : Z * Z :=
  match row with
  | 1 => (17, 64) | 2 => (17, 96) | 3 => (18, 64) | 4 => (18, 96) | 5 => (21, 64) | 6 => (21, 96)
  | 7 => (22, 64) | 8 => (22, 96) | 9 => (23, 64) | 10 => (23, 96) | 11 => (16, 64)
  | 12 => (19, 64) | 13 => (19, 96) | 14 => (20, 64) | _ => (20, 96)
  end.
Definition pac_word (row attr : Z) : Z := let '(b1, base) := pac_bytes row in word b1 (base + attr).

(* tab offsets: 0x17 0x21..0x23 move the cursor 1..3 columns to the right *)
Definition tab_word (n : Z) : Z := word 23 (32 + n).

(* miscellaneous control codes 0x14 0x20..0x2f; mid-row codes 0x11 0x20..0x2f (0x2e / 0x2f italics) *)
Definition ctrl_word (c : Z) : Z := word 20 c.
Definition midrow_word (attr : Z) : Z := word 17 (32 + attr).
Definition special_word (i : Z) : Z := word 17 (48 + i).
Definition extended1_word (i : Z) : Z := word 18 (32 + i).
Definition extended2_word (i : Z) : Z := word 19 (32 + i).

(* ---- safe-area layout: 32 columns across 10%..90%, 15 rows across 5%..95% ------------------------ *)
Definition layout_608 (row col : Z) : Q * Q :=
  ((10 + (90 - 10) * inject_Z col / 32)%Q, (5 + (95 - 5) * inject_Z (row - 1) / 15)%Q).

Definition rows_608 : list Z := [1; 2; 3; 4; 5; 6; 7; 8; 9; 10; 11; 12; 13; 14; 15].
Definition indents_608 : list Z := [0; 4; 8; 12; 16; 20; 24; 28].
Definition zrange (lo n : nat) : list Z := map Z.of_nat (seq lo n).
