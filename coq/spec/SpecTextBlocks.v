(* SRT block grammar and MicroDVD line grammar, as reference parsers (not pycaption's readers).
   SRT: a document is a sequence of blocks separated by one or more blank lines (a line with nothing but ASCII
   white space counts as blank); a block is  index line (digits) / timing line (contains "-->") / one or more text lines.
   MicroDVD: every non-empty line is {digits}{digits}text ; '|' separates the lines of the text.
   Definitions only. *)
From Coq Require Import List ZArith Bool.
From PV Require Import lib.Sx lib.Str spec.SpecTextVtt.
Import ListNotations.
Open Scope Z_scope.

(* a blank line = nothing but ASCII white space.  A line holding only U+00A0 is text: the property allows an empty
   line of a caption to be "rendered as a non-breaking space" *)
Definition ascii_space (c : Z) : bool := ((9 <=? c) && (c <=? 13)) || ((28 <=? c) && (c <=? 32)).
Definition is_blank (l : str) : bool := forallb ascii_space l.

Definition srt_block_text (b : list str) : option (list str) :=
  match b with
  | idx :: tl :: text =>
      if isdigit (strip idx) && has_arrow tl then Some text else None
  | _ => None
  end.

(* None = some block does not follow the grammar *)
Definition srt_cues (doc : str) : option (list (list str)) :=
  opt_map srt_block_text (runs_by is_blank (lf_lines doc) []).

(* ---- MicroDVD ---------------------------------------------------------------- *)
Definition brace_num (s : str) : option (str * str) :=
  match s with
  | 123 :: t =>
      match take_while is_digit t, drop_while is_digit t with
      | (_ :: _) as d, 125 :: rest => Some (d, rest)
      | _, _ => None
      end
  | _ => None
  end.

Definition mdvd_line (l : str) : option (str * str * list str) :=
  match brace_num l with
  | Some (a, r) =>
      match brace_num r with
      | Some (b, txt) => Some (a, b, split_ch 124 txt)
      | None => None
      end
  | None => None
  end.

Definition mdvd_cues (doc : str) : option (list (list str)) :=
  opt_map (fun l => match mdvd_line l with Some (_, _, ls) => Some ls | None => None end)
          (filter (fun l => negb (is_empty l)) (lf_lines doc)).
