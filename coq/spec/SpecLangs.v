(* C14 specification, from the property statement: each language's cue list stays under its language, in
   document order; languages are listed in order of first appearance; force= / lang= select exactly the named
   language; a DFXP div falls back to the document language, then to the configured default; a SAMI body has
   its SYNC blocks in non-decreasing time order and every paragraph in the block of its start time.
   Decidable oracles on what the implementation returned. (No reference to the model.) *)
From Coq Require Import List ZArith Bool.
From PV Require Import lib.Sx lib.Str.
Import ListNotations.
Open Scope Z_scope.

Definition scue := (Z * str)%type.
Definition sset := list (str * list scue).

Definition cue_eqb (a b : scue) : bool := (fst a =? fst b) && str_eqb (snd a) (snd b).
Fixpoint list_eqb {A} (e : A -> A -> bool) (a b : list A) : bool :=
  match a, b with
  | [], [] => true
  | x :: a', y :: b' => e x y && list_eqb e a' b'
  | _, _ => false
  end.
Definition lang_eqb (a b : str * list scue) : bool := str_eqb (fst a) (fst b) && list_eqb cue_eqb (snd a) (snd b).
Definition sset_eqb := list_eqb lang_eqb.

Definition smem (l : str) (ls : list str) : bool := existsb (str_eqb l) ls.
Fixpoint nodupb (ls : list str) : bool :=
  match ls with [] => true | l :: t => negb (smem l t) && nodupb t end.

(* ---- grouping by language: languages in order of first appearance, each with ALL its cues in document order --- *)
(* keep the first occurrence of every language *)
Fixpoint uniq (ls : list str) : list str :=
  match ls with
  | [] => []
  | l :: t => l :: filter (fun x => negb (str_eqb x l)) (uniq t)
  end.
(* tagged: (language, cues contributed) per div / paragraph, in document order *)
Definition spec_group (tagged : list (str * list scue)) : sset :=
  map (fun l => (l, flat_map snd (filter (fun t => str_eqb (fst t) l) tagged))) (uniq (map fst tagged)).

(* ---- DFXP read: own xml:lang, else the document's, else the configured default --------------------------- *)
Definition effective_lang (own doc : option str) (default : str) : str :=
  match own, doc with
  | Some l, _ => l
  | None, Some l => l
  | None, None => default
  end.

(* input: document language, divs in document order (own language, the cues of the div's own paragraphs); every
   document is in the domain: a language met again (a further div) continues its cue list, no cue is lost *)
Definition ok_dfxp_read (default : str) (doc_lang : option str) (divs : list (option str * list scue)) (obs : sset) : bool :=
  sset_eqb obs (spec_group (map (fun d => (effective_lang (fst d) doc_lang default, snd d)) divs)).

(* ---- DFXP write: divs = languages in order with their cue lists; force selects exactly that language ------ *)
(* obs is a subsequence of the caption set (no cue moves, order kept) *)
Fixpoint subseq (obs cs : sset) : bool :=
  match obs with
  | [] => true
  | o :: obs' =>
      match cs with
      | [] => false
      | c :: cs' => if lang_eqb o c then subseq obs' cs' else subseq obs cs'
      end
  end.
Definition ok_dfxp_write (force : str) (cs obs : sset) : bool :=
  subseq obs cs &&
  (if smem force (map fst cs)
   then match obs with [(l, _)] => str_eqb l force | _ => false end
   else match force with [] => sset_eqb obs cs | _ => true end).

(* ---- SAMI read: paragraphs tagged with their language, in document order; a blank paragraph (only whitespace /
        &nbsp;) counts for the order of first appearance of its language but contributes no cue --------------------- *)
Definition ok_sami_read (tagged : list (str * scue * bool)) (obs : sset) : bool :=
  sset_eqb obs (spec_group (map (fun t : str * scue * bool =>
                                (fst (fst t), if snd t then @nil scue else [snd (fst t)])) tagged)).

(* ---- SAMI write ------------------------------------------------------------------------------------------------ *)
Definition spar := (str * str)%type.
Definition sbody := list (Z * list spar).

Fixpoint nondecr (l : list Z) : bool :=
  match l with a :: ((b :: _) as t) => (a <=? b) && nondecr t | _ => true end.

Definition blank_par (p : spar) : bool := str_eqb (snd p) (lit "&nbsp;").
(* the non-blank paragraphs of class cls in document order, each with the start of its block *)
Definition pars_of (cls : str) (b : sbody) : list scue :=
  flat_map (fun s => map (fun p => (fst s, snd p))
                         (filter (fun p => str_eqb (fst p) cls && negb (blank_par p)) (snd s))) b.

(* input: languages with cues (start us, text); every language's paragraphs = its cues at start // 1000 *)
Definition ok_sami_body (cs : sset) (b : sbody) : bool :=
  nondecr (map fst b)
  && forallb (fun lc => list_eqb cue_eqb (pars_of (fst lc) b) (map (fun c => (fst c / 1000, snd c)) (snd lc))) cs
  && forallb (fun s => forallb (fun p => smem (fst p) (map fst cs)) (snd s)) b.

(* ---- language pick (WebVTT lang=, reader lang=) ---------------------------------------------------------------- *)
Definition ok_pick (lang : option str) (cs : sset) (obs : list scue) : bool :=
  match lang with
  | Some l => match filter (fun c => str_eqb (fst c) l) cs with
              | c :: _ => list_eqb cue_eqb obs (snd c)
              | [] => match obs with [] => true | _ => false end
              end
  | None => match cs with c :: _ => list_eqb cue_eqb obs (snd c) | [] => true end
  end.
