(* C03/C04: how authored lines and observed lines are compared (DESIGN 7.0 decision iv):
   per line, after trimming and collapsing white-space runs; lines that are empty (or only white space,
   which includes a lone no-break space) are dropped on both sides.  Definitions only. *)
From Coq Require Import List ZArith Bool.
From PV Require Import lib.Sx lib.Str.
Import ListNotations.
Open Scope Z_scope.

(* split at white space, dropping empty pieces (Python str.split() without argument) *)
Fixpoint words_aux (s cur : str) : list str :=
  match s with
  | [] => match cur with [] => [] | _ => [rev cur] end
  | c :: t =>
      if is_space c then match cur with [] => words_aux t [] | _ => rev cur :: words_aux t [] end
      else words_aux t (c :: cur)
  end.
Definition words (s : str) : list str := words_aux s [].
Definition norm_line (s : str) : str := join [32] (words s).

Definition nonempty (s : str) : bool := match s with [] => false | _ => true end.
Definition norm_lines (ls : list str) : list str := filter nonempty (map norm_line ls).

Fixpoint strs_eqb (a b : list str) : bool :=
  match a, b with
  | [], [] => true
  | x :: a', y :: b' => str_eqb x y && strs_eqb a' b'
  | _, _ => false
  end.

Definition ok_lines (authored observed : list str) : bool := strs_eqb (norm_lines authored) (norm_lines observed).

(* cue structure: one observed cue per authored caption, in order, with the same lines *)
Fixpoint ok_cues (authored observed : list (list str)) : bool :=
  match authored, observed with
  | [], [] => true
  | a :: at', o :: ot => ok_lines a o && ok_cues at' ot
  | _, _ => false
  end.

(* a caption is in the domain of C03 when it shows at least one visible character *)
Definition visible_lines (ls : list str) : bool := match norm_lines ls with [] => false | _ => true end.

(* ---- C03: "up to leading/trailing white space per line" - trim only, the interior of a line is compared exactly;
        lines that are empty after trimming (empty, blank, a lone no-break space) are dropped on both sides ---- *)
Definition trim_lines (ls : list str) : list str := filter nonempty (map strip ls).
Definition ok_lines_strict (authored observed : list str) : bool := strs_eqb (trim_lines authored) (trim_lines observed).
Fixpoint ok_cues_strict (authored observed : list (list str)) : bool :=
  match authored, observed with
  | [], [] => true
  | a :: at', o :: ot => ok_lines_strict a o && ok_cues_strict at' ot
  | _, _ => false
  end.

(* ---- C04: "per line after trim + white-space-run collapse": the ends of a line are trimmed, runs of white space
        INSIDE the line collapse to one blank.  White space = Python isspace EXCEPT U+00A0: a no-break space inside a line
        is a character and must come back as itself (so must the decoding of &nbsp; / &#160;); U+2028, U+0085, FF ...
        count as white space in the comparison (that they do not split the line is checked by the line structure) ---- *)
Definition ascii_ws (c : Z) : bool := is_space c && negb (c =? 160).
Fixpoint words_by_aux (f : Z -> bool) (s cur : str) : list str :=
  match s with
  | [] => match cur with [] => [] | _ => [rev cur] end
  | c :: t =>
      if f c then match cur with [] => words_by_aux f t [] | _ => rev cur :: words_by_aux f t [] end
      else words_by_aux f t (c :: cur)
  end.
Definition norm_line_a (s : str) : str := join [32] (words_by_aux ascii_ws (strip s) []).
Definition norm_lines_a (ls : list str) : list str := filter nonempty (map norm_line_a ls).
Definition ok_lines_a (authored observed : list str) : bool := strs_eqb (norm_lines_a authored) (norm_lines_a observed).
