(* C08 specification: what a conversion hop through each format does to the timeline of one
   language (projection pi_F), chains of hops, and the closed form the statement demands:
   times to the coarsest resolution on the chain (ms; MicroDVD frames of 40 ms), SAMI keeping
   starts and non-final ends and giving the final cue four seconds.  Definitions only. *)
From Coq Require Import List ZArith Bool.
From PV Require Import lib.Sx lib.Result model.Chain.
Import ListNotations.
Open Scope Z_scope.

(* floor to a multiple of u *)
Definition fl (u t : Z) : Z := t / u * u.
Definition unit_of (f : fmt) : Z := match f with FMdvd => 40000 | _ => 1000 end.
Definition pi_pt (u : Z) (c : cue) : cue := (fl u (fst c), fl u (snd c)).

(* SAMI does not write the end of a language's last cue; its reader gives it four seconds *)
Fixpoint set_last_end (cs : list cue) : list cue :=
  match cs with
  | [] => []
  | [c] => [(fst c, fst c + 4000000)]
  | c :: t => c :: set_last_end t
  end.

Definition pi (f : fmt) (cs : list cue) : list cue :=
  match f with
  | FSami => set_last_end (map (pi_pt 1000) cs)
  | _ => map (pi_pt (unit_of f)) cs
  end.

Definition run (chain : list fmt) (cs : list cue) : list cue := fold_left (fun acc f => pi f acc) chain cs.

Definition is_mdvd (f : fmt) : bool := match f with FMdvd => true | _ => false end.
Definition is_sami (f : fmt) : bool := match f with FSami => true | _ => false end.

(* the coarsest resolution on the chain *)
Definition coarsest (chain : list fmt) : Z :=
  match chain with
  | [] => 1
  | _ => if existsb is_mdvd chain then 40000 else 1000
  end.

(* closed form: every time floored to the coarsest unit; if SAMI is on the chain the final end
   is the final start plus four seconds *)
Definition nf (u : Z) (sami : bool) (cs : list cue) : list cue :=
  let m := map (pi_pt u) cs in if sami then set_last_end m else m.

Definition expected (chain : list fmt) (cs : list cue) : list cue :=
  nf (coarsest chain) (existsb is_sami chain) cs.

(* domain: cues sorted, non-overlapping, at least one unit u long, non-negative, below hi *)
Fixpoint sorted_from (u lo hi : Z) (cs : list cue) : bool :=
  match cs with
  | [] => true
  | (s, e) :: t => (lo <=? s) && (s + u <=? e) && (e <? hi) && sorted_from u e hi t
  end.
(* without SAMI on the chain a cue may be shorter than the unit (even of length 0): it then floors to a
   zero-length cue that is kept; what is needed is that neighbours start in different units (equal spans
   would be merged by the SRT writer) and - with MicroDVD on the chain - that no cue lies inside frame 0
   (the spelling {0}{0} is the frame-rate header: recorded finding) *)
Fixpoint starts_apart (u lo hi : Z) (cs : list cue) : bool :=
  match cs with
  | [] => true
  | (s, e) :: t =>
      (lo <=? s) && (s <=? e) && (e <? hi)
      && match t with (s', _) :: _ => fl u s <? fl u s' | [] => true end
      && starts_apart u e hi t
  end.

Definition no_frame0 (u : Z) (cs : list cue) : bool :=
  forallb (fun c : cue => (u <? 40000) || (40000 <=? snd c)) cs.

Definition chain_dom (chain : list fmt) (cs : list cue) : bool :=
  if existsb is_sami chain
  then sorted_from (coarsest chain) 0 86396000000 cs      (* below 24 h - 4 s: the SAMI tail stays below 24 h *)
  else starts_apart (coarsest chain) 0 86400000000 cs && no_frame0 (coarsest chain) cs.

Definition cues_eqb (a b : list cue) : bool :=
  (length a =? length b)%nat &&
  forallb (fun p => (fst (fst p) =? fst (snd p)) && (snd (fst p) =? snd (snd p))) (combine a b).

(* "the same times to the coarsest resolution on the chain": every observed time differs from the ORIGINAL time
   by less than one unit (floor, ceiling or nearest are all within resolution; a hop may keep more precision).
   SAMI does not write the end of a language's last cue: with SAMI on the chain the final end is not compared. *)
Definition near (u a b : Z) : bool := (Z.abs (a - b) <? u).
Fixpoint within (u : Z) (sami : bool) (cs obs : list cue) : bool :=
  match cs, obs with
  | [], [] => true
  | c :: ct, o :: ot =>
      near u (fst c) (fst o)
      && (match ct with [] => sami | _ => false end || near u (snd c) (snd o))
      && within u sami ct ot
  | _, _ => false
  end.

(* property oracle: pass 1 within resolution of the original; a second pass changes nothing at all *)
Definition ok_chain (chain : list fmt) (cs : list cue) (pass1 pass2 : result (list cue)) : bool :=
  match pass1, pass2 with
  | Ok o1, Ok o2 => within (coarsest chain) (existsb is_sami chain) cs o1 && cues_eqb o1 o2
  | _, _ => false
  end.

(* several languages: every language keeps its name, its place and its own closed form *)
Definition expected_set (chain : list fmt) (cs : capset) : capset :=
  map (fun lc => (fst lc, expected chain (snd lc))) cs.
Definition set_dom (chain : list fmt) (cs : capset) : bool :=
  forallb carries_languages chain && forallb (fun lc => chain_dom chain (snd lc)) cs.
