(* C07 requests: 700..717. *)
From Coq Require Import List ZArith Bool.
From PV Require Import lib.Sx lib.Str lib.Result.
From PV Require Import model.DfxpXml model.DfxpRegion model.DfxpDoc model.DfxpSkel model.DfxpSkelHead model.DfxpSkelBody spec.SpecXmlAttr spec.SpecXmlDoc extract.OrCommon.
Import ListNotations.
Open Scope Z_scope.

Definition sx_pair (x : sx) : option (str * str) :=
  match x with SL [SS a; SS b] => Some (a, b) | _ => None end.
Definition of_pairs (l : list (str * str)) : sx := of_list (fun kv => SL [SS (fst kv); SS (snd kv)]) l.
Definition sx_pnode (x : sx) : option pnode :=
  match x with
  | SL [SI 0; SS s] => Some (PText s)
  | SL [SI 1] => Some PBreak
  | SL [SI 2; a] => match sx_listof sx_pair a with Some a => Some (PStyleStart a) | None => None end
  | SL [SI 3] => Some PStyleEnd
  | _ => None
  end.
Definition of_ev (e : xev) : sx :=
  match e with
  | EText c => SI c
  | EOpen n a => SL [SI 1; SS n; of_pairs a]
  | EClose n => SL [SI 2; SS n]
  end.

Definition sx_lay (x : sx) : option lay :=
  match x with
  | SL [] => Some None
  | SL [SI c; SI cr; SI b] => Some (Some (c, negb (cr =? 0), negb (b =? 0)))
  | _ => None
  end.
Definition sx_rnode (x : sx) : option rnode :=
  match x with SL [l; SI s] => match sx_lay l with Some l => Some (mkRnode l (negb (s =? 0))) | None => None end | _ => None end.
Definition sx_rcap (x : sx) : option rcap :=
  match x with
  | SL [l; ns] => match sx_lay l, sx_listof sx_rnode ns with Some l, Some ns => Some (mkRcap l ns) | _, _ => None end
  | _ => None end.
Definition sx_rlang (x : sx) : option rlang :=
  match x with
  | SL [l; cs] => match sx_lay l, sx_listof sx_rcap cs with Some l, Some cs => Some (mkRlang l cs) | _, _ => None end
  | _ => None end.
Definition sx_rset (x : sx) : option rset :=
  match x with
  | SL [l; ls] => match sx_lay l, sx_listof sx_rlang ls with Some l, Some ls => Some (mkRset l ls) | _, _ => None end
  | _ => None end.

Definition sx_pairs := sx_listof sx_pair.
Definition sx_dnode (x : sx) : option dnode :=
  match x with
  | SL [l; SI sp; c] => match sx_lay l, sx_pairs c with
                        | Some l, Some c => Some (mkDnode (mkRnode l (negb (sp =? 0))) c) | _, _ => None end
  | _ => None end.
Definition sx_dcap (x : sx) : option dcap :=
  match x with
  | SL [l; st; ns] => match sx_lay l, sx_opt sx_pairs st, sx_listof sx_dnode ns with
                      | Some l, Some st, Some ns => Some (mkDcap l st ns) | _, _, _ => None end
  | _ => None end.
Definition sx_dlang (x : sx) : option dlang :=
  match x with
  | SL [l; cs] => match sx_lay l, sx_listof sx_dcap cs with Some l, Some cs => Some (mkDlang l cs) | _, _ => None end
  | _ => None end.
Definition sx_dset (x : sx) : option dset :=
  match x with
  | SL [l; sts; ls] =>
      match sx_lay l, sx_listof (fun y => match y with
                                          | SL [SS id; c] => match sx_pairs c with Some c => Some (id, c) | None => None end
                                          | _ => None end) sts, sx_listof sx_dlang ls with
      | Some l, Some sts, Some ls => Some (mkDset l sts ls) | _, _, _ => None end
  | _ => None end.

(* wave 7: the tree the writer built: [tt attrs; [style attrs ...]; [region attrs ...]; [[div attrs; [[p attrs; payload] ...]] ...]] *)
Definition sx_skp (x : sx) : option skp :=
  match x with SL [a; SS t] => match sx_pairs a with Some a => Some (mkSkp a t) | None => None end | _ => None end.
Definition sx_skdiv (x : sx) : option skdiv :=
  match x with
  | SL [a; ps] => match sx_pairs a, sx_listof sx_skp ps with Some a, Some ps => Some (mkSkdiv a ps) | _, _ => None end
  | _ => None end.
Definition sx_skdoc (x : sx) : option skdoc :=
  match x with
  | SL [ta; sts; rgs; dvs] =>
      match sx_pairs ta, sx_listof sx_pairs sts, sx_listof sx_pairs rgs, sx_listof sx_skdiv dvs with
      | Some ta, Some sts, Some rgs, Some dvs => Some (mkSkdoc ta sts rgs dvs) | _, _, _, _ => None end
  | _ => None end.
Definition count_opens (evs : list xev) : Z :=
  Z.of_nat (length (filter (fun e => match e with EOpen _ _ => true | _ => false end) evs)).

(* round 4: the decorated caption set of model/DfxpSkelBody.v:
   [layout; style table; [[layout; [[layout; style?; [[layout; span; content; inline] ...]; begin; end; inline] ...]; code; inline] ...]] *)
Definition sx_xnode (x : sx) : option xnode :=
  match x with
  | SL [l; SI sp; c; il] => match sx_lay l, sx_pairs c, sx_pairs il with
                            | Some l, Some c, Some il => Some (mkXnode (mkDnode (mkRnode l (negb (sp =? 0))) c) il)
                            | _, _, _ => None end
  | _ => None end.
Definition sx_xcap (x : sx) : option xcap :=
  match x with
  | SL [l; st; ns; SS b; SS e; il] =>
      match sx_lay l, sx_opt sx_pairs st, sx_listof sx_xnode ns, sx_pairs il with
      | Some l, Some st, Some ns, Some il => Some (mkXcap l st ns b e il) | _, _, _, _ => None end
  | _ => None end.
Definition sx_xlang (x : sx) : option xlang :=
  match x with
  | SL [l; cs; SS code; il] => match sx_lay l, sx_listof sx_xcap cs, sx_pairs il with
                               | Some l, Some cs, Some il => Some (mkXlang l cs code il) | _, _, _ => None end
  | _ => None end.
Definition sx_xset (x : sx) : option xset :=
  match x with
  | SL [l; sts; ls] =>
      match sx_lay l, sx_listof (fun y => match y with
                                          | SL [SS id; c] => match sx_pairs c with Some c => Some (id, c) | None => None end
                                          | _ => None end) sts, sx_listof sx_xlang ls with
      | Some l, Some sts, Some ls => Some (mkXset l sts ls) | _, _, _ => None end
  | _ => None end.
Fixpoint extra_of (l : list (Z * list (str * str))) (id : Z) : list (str * str) :=
  match l with [] => [] | (k, a) :: t => if k =? id then a else extra_of t id end.
Definition of_body (b : list sk_div) : sx :=
  of_list (fun dv => SL [of_pairs (fst dv); of_list (fun p => SL [of_pairs (fst p); of_list of_pairs (snd p)]) (snd dv)]) b.

Definition dispatch (code : Z) (arg : sx) : option sx :=
  match code with
  | 700 => Some (match arg with SS v => SS (attr_out v) | _ => bad end)
  | 701 => Some (match arg with SS v => SS (quoteattr v) | _ => bad end)
  | 702 => Some (match arg with SS s => of_opt SS (attr_parse s) | _ => bad end)
  | 703 => Some (match arg with SS s => of_opt (of_list of_ev) (content_parse s) | _ => bad end)
  | 704 => Some (match arg with
                 | SL [SI legacy; SI open; ns] =>
                     match sx_listof sx_pnode ns with
                     | Some ns => let r := recreate_text (negb (legacy =? 0)) (negb (open =? 0)) ns in
                                  SL [SS (fst r); of_bool (snd r)]
                     | None => bad end
                 | _ => bad end)
  | 705 => Some (match arg with
                 | SL [content; ids] =>
                     match sx_listof sx_pair content, sx_listof sx_str ids with
                     | Some c, Some ids => of_pairs (recreate_style c ids) | _, _ => bad end
                 | _ => bad end)
  | 706 => Some (match sx_rset arg with
                 | Some cs => SL [of_list SI (created cs); of_list SI (defined cs);
                                  of_list (fun d => SL [SI (fst d); of_list (fun p => SL [SI (fst p); of_list SI (snd p)]) (snd d)])
                                          (refs cs)]
                 | None => bad end)
  | 707 => Some (match arg with
                 | SL [a; b; c; d; e] =>
                     match sx_listof sx_str a, sx_listof sx_str b, sx_listof sx_str c, sx_listof sx_str d, sx_listof sx_str e with
                     | Some a, Some b, Some c, Some d, Some e => SI (ok_refs a b c d e)
                     | _, _, _, _, _ => bad end
                 | _ => bad end)
  | 708 => Some (match arg with SS v => SS (xml_escape v) | _ => bad end)
  | 709 => Some (match sx_dset arg with
                 | Some d => let s := summarize d in
                             SL [of_list SS (s_ids s); of_list SS (s_style_ids s); of_list SS (s_region_ids s);
                                 of_list SS (s_style_refs s); of_list SS (s_region_refs s); of_bool (dom_doc d)]
                 | None => bad end)
  | 710 => Some (match arg with
                 | SL [sa; r; il] => match sx_pairs sa, sx_opt sx_str r, sx_pairs il with
                                      | Some sa, Some r, Some il => of_pairs (span_attributes sa r il)
                                      | _, _, _ => bad end
                 | _ => bad end)
  | 711 => Some (match sx_dset arg with
                 | Some d => let s := legacy_summarize d in
                             SL [of_list SS (s_ids s); of_list SS (s_style_ids s); of_list SS (s_region_ids s);
                                 of_list SS (s_style_refs s); of_list SS (s_region_refs s); of_bool (dom_legacy d)]
                 | None => bad end)
  | 712 => Some (match arg with
                 | SL [content; ids; rids] =>
                     match sx_listof sx_pair content, sx_listof sx_str ids, sx_listof sx_str rids with
                     | Some c, Some ids, Some rids => of_pairs (legacy_recreate_style c ids rids) | _, _, _ => bad end
                 | _ => bad end)
  | 713 => Some (match arg with          (* [positioning; dset] -> summary of the single-positioning document, dom_single *)
                 | SL [pl; ds] =>
                     match sx_lay pl, sx_dset ds with
                     | Some pl, Some d => let s := summarize (single_positioning pl d) in
                             SL [of_list SS (s_ids s); of_list SS (s_style_ids s); of_list SS (s_region_ids s);
                                 of_list SS (s_style_refs s); of_list SS (s_region_refs s); of_bool (dom_single pl d)]
                     | _, _ => bad end
                 | _ => bad end)
  | 716 => Some (match sx_listof (fun y => match y with          (* the style table -> the <style> dictionaries of the tree *)
                                            | SL [SS id; c] => match sx_pairs c with Some c => Some (id, c) | None => None end
                                            | _ => None end) arg with
                 | Some table => of_list of_pairs (style_elems table)
                 | None => bad end)
  | 717 => Some (match arg with          (* [decorated set; [[region id; layout attributes] ...]] -> the tree of DfxpSkelBody.tree_of *)
                 | SL [xs; ex] =>
                     match sx_xset xs, sx_listof (fun y => match y with
                                                          | SL [SI id; a] => match sx_pairs a with Some a => Some (id, a) | None => None end
                                                          | _ => None end) ex with
                     | Some x, Some ex =>
                         let t := tree_of (extra_of ex) x in
                         SL [of_list of_pairs (t_regions t); of_body (t_body t);
                             of_list SS (tree_ids t); of_list SS (tree_style_refs t); of_list SS (tree_region_refs t);
                             SI (ok_refs (tree_ids t) (tree_style_ids t) (tree_region_ids t) (tree_style_refs t) (tree_region_refs t));
                             of_bool (dom_doc (erase x))]
                     | _, _ => bad end
                 | _ => bad end)
  | 714 => Some (match sx_skdoc arg with Some d => SS (dfxp_document d) | None => bad end)   (* the rendered document *)
  | 715 => Some (match arg with          (* a document text -> [accepted by the document machine; ns_ok; tt in TTML ns; elements] *)
                 | SS s => match doc_parse s with
                           | Some evs => SL [of_bool true; of_bool (ns_ok evs); of_bool (root_in_ns (lit "tt") spec_ttml_ns evs);
                                             SI (count_opens evs)]
                           | None => SL [of_bool false; of_bool false; of_bool false; SI 0] end
                 | _ => bad end)
  | _ => None
  end.
