(* C07 requests: 700..708. *)
From Coq Require Import List ZArith Bool.
From PV Require Import lib.Sx lib.Str lib.Result.
From PV Require Import model.DfxpXml model.DfxpRegion spec.SpecXmlAttr extract.OrCommon.
Import ListNotations.
Open Scope Z_scope.

Definition sx_pair (x : sx) : option (str * str) :=
  match x with SL [SS a; SS b] => Some (a, b) | _ => None end.
Definition of_pairs (l : list (str * str)) : sx := of_list (fun kv => SL [SS (fst kv); SS (snd kv)]) l.
Definition sx_pnode (x : sx) : option pnode :=
  match x with
  | SL [SI 0; SS s] => Some (PText s)
  | SL [SI 1] => Some PBreak
  | SL [SI 2; a] => match sx_listof sx_pair a with Some a => Some (PStyleStart a) | None => None end
  | SL [SI 3] => Some PStyleEnd
  | _ => None
  end.
Definition of_ev (e : xev) : sx :=
  match e with
  | EText c => SI c
  | EOpen n a => SL [SI 1; SS n; of_pairs a]
  | EClose n => SL [SI 2; SS n]
  end.

Definition sx_lay (x : sx) : option lay :=
  match x with
  | SL [] => Some None
  | SL [SI c; SI b] => Some (Some (c, negb (b =? 0)))
  | _ => None
  end.
Definition sx_rnode (x : sx) : option rnode :=
  match x with SL [l; SI s] => match sx_lay l with Some l => Some (mkRnode l (negb (s =? 0))) | None => None end | _ => None end.
Definition sx_rcap (x : sx) : option rcap :=
  match x with
  | SL [l; ns] => match sx_lay l, sx_listof sx_rnode ns with Some l, Some ns => Some (mkRcap l ns) | _, _ => None end
  | _ => None end.
Definition sx_rlang (x : sx) : option rlang :=
  match x with
  | SL [l; cs] => match sx_lay l, sx_listof sx_rcap cs with Some l, Some cs => Some (mkRlang l cs) | _, _ => None end
  | _ => None end.
Definition sx_rset (x : sx) : option rset :=
  match x with
  | SL [l; ls] => match sx_lay l, sx_listof sx_rlang ls with Some l, Some ls => Some (mkRset l ls) | _, _ => None end
  | _ => None end.

Definition dispatch (code : Z) (arg : sx) : option sx :=
  match code with
  | 700 => Some (match arg with SS v => SS (attr_out v) | _ => bad end)
  | 701 => Some (match arg with SS v => SS (quoteattr v) | _ => bad end)
  | 702 => Some (match arg with SS s => of_opt SS (attr_parse s) | _ => bad end)
  | 703 => Some (match arg with SS s => of_opt (of_list of_ev) (content_parse s) | _ => bad end)
  | 704 => Some (match arg with
                 | SL [SI legacy; SI open; ns] =>
                     match sx_listof sx_pnode ns with
                     | Some ns => let r := recreate_text (negb (legacy =? 0)) (negb (open =? 0)) ns in
                                  SL [SS (fst r); of_bool (snd r)]
                     | None => bad end
                 | _ => bad end)
  | 705 => Some (match arg with
                 | SL [content; ids] =>
                     match sx_listof sx_pair content, sx_listof sx_str ids with
                     | Some c, Some ids => of_pairs (recreate_style c ids) | _, _ => bad end
                 | _ => bad end)
  | 706 => Some (match sx_rset arg with
                 | Some cs => SL [of_list SI (created cs); of_list SI (defined cs);
                                  of_list (fun d => SL [SI (fst d); of_list (fun p => SL [SI (fst p); of_list SI (snd p)]) (snd d)])
                                          (refs cs)]
                 | None => bad end)
  | 707 => Some (match arg with
                 | SL [a; b; c; d; e] =>
                     match sx_listof sx_str a, sx_listof sx_str b, sx_listof sx_str c, sx_listof sx_str d, sx_listof sx_str e with
                     | Some a, Some b, Some c, Some d, Some e => SI (ok_refs a b c d e)
                     | _, _, _, _, _ => bad end
                 | _ => bad end)
  | 708 => Some (match arg with SS v => SS (xml_escape v) | _ => bad end)
  | _ => None
  end.
