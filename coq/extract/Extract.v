(* Extraction: ExtrOcamlBasic only; Z, positive, nat, Q stay Coq datatypes.
   Compiled with cwd = coq/extract/ml so that oracle.ml / oracle.mli land there. *)
From Coq Require Import Extraction ExtrOcamlBasic ZArith.
From PV Require Import extract.Oracle.
Extraction Language OCaml.
Extraction "oracle.ml" Oracle.oracle BinInt.Z.mul BinInt.Z.add BinInt.Z.opp BinInt.Z.div_eucl.
