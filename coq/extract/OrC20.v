(* C20 requests: 2000 model observation, 2001 property oracle. *)
From Coq Require Import List ZArith QArith Bool.
From PV Require Import lib.Sx lib.Str lib.Result.
From PV Require Import model.Generated model.Detect spec.SpecDetect extract.OrCommon.
Import ListNotations.
Open Scope Z_scope.

(* ---- C20 ------------------------------------------------------------------ *)
Definition req_c20_model (arg : sx) : sx :=
  match arg with
  | SS s => SL [of_list (fun r => of_result of_bool (detect_of r s)) documented_order;
                of_result of_optz (detect_format s)]
  | _ => bad
  end.

Definition req_c20_ok (arg : sx) : sx :=
  match arg with
  | SL [SI ne; ds; df] =>
      match sx_bool (SI ne), sx_listof (sx_result sx_bool) ds, sx_result (sx_opt sx_int) df with
      | Some ne, Some ds, Some df => of_bool (ok_detect ne ds df)
      | _, _, _ => bad
      end
  | _ => bad
  end.


Definition dispatch (code : Z) (arg : sx) : option sx :=
  match code with
  | 2000 => Some (req_c20_model arg)
  | 2001 => Some (req_c20_ok arg)
  | _ => None
  end.
