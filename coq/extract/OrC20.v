(* C20 requests: 2000 model observation, 2001 property oracle, 2002 own-output shape instance.
   2002 [fmt; payload] -> [document assembled by the shape of spec/SpecOwn.v; hypotheses of the own-output theorem hold?]
        fmt 1 MicroDVD: payload [d1; d2; txt0; [[prefix; txt] ...]]     fmt 2 WebVTT: payload [piece ...]
        fmt 4 SRT:      payload [[timing line; text] ...] (non-empty)    fmt 5 SCC:    payload body             *)
From Coq Require Import List ZArith QArith Bool.
From PV Require Import lib.Sx lib.Str lib.Result.
From PV Require Import model.Generated model.Detect spec.SpecDetect spec.SpecOwn extract.OrCommon.
Import ListNotations.
Open Scope Z_scope.

Definition req_c20_model (arg : sx) : sx :=
  match arg with
  | SS s => SL [of_list (fun r => of_result of_bool (detect_of r s)) documented_order;
                of_result of_optz (detect_format s)]
  | _ => bad
  end.

Definition req_c20_ok (arg : sx) : sx :=
  match arg with
  | SL [SI ne; ds; df] =>
      match sx_bool (SI ne), sx_listof (sx_result sx_bool) ds, sx_result (sx_opt sx_int) df with
      | Some ne, Some ds, Some df => SL [of_bool (ok_detect ne ds df); of_bool (all_sniffers_total ds)]
      | _, _, _ => bad
      end
  | _ => bad
  end.

Definition sx_pair (x : sx) : option (str * str) :=
  match x with SL [SS a; SS b] => Some (a, b) | _ => None end.

Definition req_c20_shape (arg : sx) : sx :=
  match arg with
  | SL [SI 4; cues] =>
      match sx_listof sx_pair cues with
      | Some ((tl, txt) :: rest) =>
          SL [SS (srt_document ((tl, txt) :: rest));
              of_bool (srt_first_ok tl && forallb srt_cue_ok ((tl, txt) :: rest))]
      | _ => bad
      end
  | SL [SI 1; SL [SS d1; SS d2; SS txt; rest]] =>
      match sx_listof sx_pair rest with
      | Some rest =>
          let cues := (frames_prefix d1 d2, txt) :: rest in
          SL [SS (mdvd_document cues); of_bool (ascii_digits d1 && ascii_digits d2 && forallb mdvd_cue_ok cues)]
      | None => bad
      end
  | SL [SI 2; pieces] =>
      match sx_listof sx_str pieces with
      | Some ps => SL [SS (vtt_document ps); of_bool (forallb (free before_vtt) ps)]
      | None => bad
      end
  | SL [SI 5; SS body] => SL [SS (scc_document body); of_bool (forallb scc_body_char body)]
  | _ => bad
  end.

Definition dispatch (code : Z) (arg : sx) : option sx :=
  match code with
  | 2000 => Some (req_c20_model arg)
  | 2001 => Some (req_c20_ok arg)
  | 2002 => Some (req_c20_shape arg)
  | _ => None
  end.
