(* C20 requests: 2000 model observation, 2001 property oracle, 2002 own-output shape instance.
   2002 [fmt; payload] -> [document assembled by the shape of spec/SpecOwn.v; hypotheses of the own-output theorem hold?]
        fmt 1 MicroDVD: payload [d1; d2; txt0; [[prefix; txt] ...]]     fmt 2 WebVTT: payload [piece ...]
        fmt 4 SRT:      payload [[timing line; text] ...] (non-empty)    fmt 5 SCC:    payload body
        [0; pre; post] DFXP skeleton pre ++ "</tt>" ++ post             [3; rest] SAMI skeleton "<sami" ++ rest
   2003 [fmt; [[ [start; end; [node ...]] ...] ...]]  node = [0; text] | [1] | [2; start?; italics; underline; bold]
        -> [document written by the writer model of model/OwnWrite.v (fmt 1 MicroDVD, 2 WebVTT, 4 SRT, 5 SCC: [-2] when the writer model raises);
            caption set in the domain of the own-output theorem that starts from the text nodes (spec/SpecOwnNodes.v)?;
            detect_format of the model on that document]                                                          *)
From Coq Require Import List ZArith QArith Bool.
From PV Require Import lib.Sx lib.Str lib.Result.
From PV Require Import model.Generated model.Detect spec.SpecDetect spec.SpecOwn extract.OrCommon.
From PV Require Import model.OwnWrite spec.SpecOwnNodes model.OwnWriteScc model.TimeRead model.OwnWriteDfxp.
Import ListNotations.
Open Scope Z_scope.

Definition req_c20_model (arg : sx) : sx :=
  match arg with
  | SS s => SL [of_list (fun r => of_result of_bool (detect_of r s)) documented_order;
                of_result of_optz (detect_format s)]
  | _ => bad
  end.

Definition req_c20_ok (arg : sx) : sx :=
  match arg with
  | SL [SI ne; ds; df] =>
      match sx_bool (SI ne), sx_listof (sx_result sx_bool) ds, sx_result (sx_opt sx_int) df with
      | Some ne, Some ds, Some df => SL [of_bool (ok_detect ne ds df); of_bool (all_sniffers_total ds)]
      | _, _, _ => bad
      end
  | _ => bad
  end.

Definition sx_pair (x : sx) : option (str * str) :=
  match x with SL [SS a; SS b] => Some (a, b) | _ => None end.

Definition req_c20_shape (arg : sx) : sx :=
  match arg with
  | SL [SI 4; cues] =>
      match sx_listof sx_pair cues with
      | Some ((tl, txt) :: rest) =>
          SL [SS (srt_document ((tl, txt) :: rest));
              of_bool (srt_first_ok tl && forallb srt_cue_ok ((tl, txt) :: rest))]
      | _ => bad
      end
  | SL [SI 1; SL [SS d1; SS d2; SS txt; rest]] =>
      match sx_listof sx_pair rest with
      | Some rest =>
          let cues := (frames_prefix d1 d2, txt) :: rest in
          SL [SS (mdvd_document cues); of_bool (ascii_digits d1 && ascii_digits d2 && forallb mdvd_cue_ok cues)]
      | None => bad
      end
  | SL [SI 2; pieces] =>
      match sx_listof sx_str pieces with
      | Some ps => SL [SS (vtt_document ps); of_bool (forallb (free before_vtt) ps)]
      | None => bad
      end
  | SL [SI 5; SS body] => SL [SS (scc_document body); of_bool (forallb scc_body_char body)]
  | SL [SI 0; SS pre; SS post] => SL [SS (dfxp_document pre post); of_bool true]
  | SL [SI 3; SS rest] => SL [SS (sami_document rest); of_bool (free before_sami (sami_document rest))]
  | _ => bad
  end.

Definition sx_onode (x : sx) : option onode :=
  match x with
  | SL [SI 0; SS t] => Some (OText t)
  | SL [SI 1] => Some OBreak
  | SL [SI 2; st; i; u; b] =>
      match sx_bool st, sx_bool i, sx_bool u, sx_bool b with
      | Some st, Some i, Some u, Some b => Some (OStyle st i u b)
      | _, _, _, _ => None
      end
  | _ => None
  end.
Definition sx_ocap (x : sx) : option ocap :=
  match x with
  | SL [SI s; SI e; ns] => match sx_listof sx_onode ns with Some l => Some (mk_ocap s e l) | None => None end
  | _ => None
  end.

Definition req_c20_write (arg : sx) : sx :=
  match arg with
  | SL [SI 0; SS lang; caps] =>       (* DFXP: one language, its code, its captions *)
      match sx_listof sx_ocap caps with
      | Some cs => let doc := dfxp_write_nodes lang cs in
                   SL [SS doc; of_bool true; of_result of_optz (detect_format doc)]
      | None => bad
      end
  | SL [SI fmt; langs] =>
      match sx_listof (sx_listof sx_ocap) langs with
      | Some ls =>
          let out (doc : str) (dom : bool) := SL [SS doc; of_bool dom; of_result of_optz (detect_format doc)] in
          match fmt with
          | 1 => out (mdvd_write ls) (mdvd_dom ls)
          | 2 => out (vtt_write ls) true
          | 4 => out (srt_write ls) (srt_dom ls)
          | 5 => match scc_write ls with Ok doc => out doc true | Err _ => SL [SI (-2)] end
          | _ => bad
          end
      | None => bad
      end
  | _ => bad
  end.

(* 2004 [fmt; langs] "that reader reads the document": [caption set in the read-back domain?; the captions the reader must
        return, one per written cue [[start; end; [text lines]] ...]; the reader model of C01 on the writer model's
        document]     fmt 1 MicroDVD, 4 SRT *)
Definition of_rcap (r : Z * Z * list str) : sx := SL [SI (fst (fst r)); SI (snd (fst r)); of_list SS (snd r)].
Definition req_c20_read (arg : sx) : sx :=
  match arg with
  | SL [SI fmt; langs] =>
      match sx_listof (sx_listof sx_ocap) langs with
      | Some ls =>
          match fmt with
          | 1 => SL [of_bool (mdvd_read_dom ls); of_list of_rcap (map mdvd_expected_cap (concat ls));
                     of_result (of_list of_rcap) (mdvd_read (mdvd_write ls))]
          | 4 => SL [of_bool (srt_read_dom ls); of_list of_rcap (map srt_expected_cap (srt_merge (hd [] ls)));
                     of_result (of_list of_rcap) (srt_read (srt_write ls))]
          | _ => bad
          end
      | None => bad
      end
  | _ => bad
  end.

Definition dispatch (code : Z) (arg : sx) : option sx :=
  match code with
  | 2000 => Some (req_c20_model arg)
  | 2001 => Some (req_c20_ok arg)
  | 2002 => Some (req_c20_shape arg)
  | 2003 => Some (req_c20_write arg)
  | 2004 => Some (req_c20_read arg)
  | _ => None
  end.
