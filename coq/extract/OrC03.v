(* C03 requests 301..329: writer text-path models (301-305; 305 = WebVTT with layout groups, wave 7), reference parsers (310-313), line comparison
   (320 lenient = trim + white-space-run collapse, used for classification only; 323 strict = trim only: the property). *)
From Coq Require Import List ZArith Bool.
From PV Require Import lib.Sx lib.Str lib.Result.
From PV Require Import model.TextNodes model.TextWrite model.TextWriteVtt.
From PV Require Import spec.SpecTextXml spec.SpecTextVtt spec.SpecTextBlocks spec.SpecTextLines extract.OrCommon.
Import ListNotations.
Open Scope Z_scope.

Definition sx_cap_t (x : sx) : option (str * list node) :=
  match x with
  | SL [SS tl; ns] => match sx_nodes ns with Some l => Some (tl, l) | None => None end
  | _ => None
  end.
Definition sx_caps_t := sx_listof sx_cap_t.

Definition of_strs (l : list str) : sx := of_list SS l.
Definition of_strss (l : list (list str)) : sx := of_list of_strs l.
Definition sx_strs := sx_listof sx_str.
Definition sx_strss := sx_listof sx_strs.

Fixpoint of_xnode (x : xnode) : sx :=
  match x with
  | XText s => SL [SI 0; SS s]
  | XElem n a kids => SL [SI 1; SS n; of_list (fun p => SL [SS (fst p); SS (snd p)]) a; SL (map of_xnode kids)]
  end.

Definition req_payload (arg : sx) : sx :=
  match arg with
  | SL [SI kind; SS extra; ns] =>
      match sx_nodes ns with
      | Some l =>
          match kind with
          | 0 => SS (dfxp_payload extra l)
          | 1 => SS (legacy_payload l)
          | 2 => SS (sami_payload l)
          | 3 => SS (vtt_cue_text l)
          | 4 => SS (srt_content l)
          | 5 => SS (mdvd_content l)
          | _ => bad
          end
      | None => bad
      end
  | _ => bad
  end.

Definition req_doc (f : list (str * list node) -> str) (arg : sx) : sx :=
  match sx_caps_t arg with Some c => SS (f c) | None => bad end.

Definition req_parse (arg : sx) : sx :=
  match arg with
  | SS s => match content_parse s with
            | Some t => SL [SL (map of_xnode t); of_strs (xlines t)]
            | None => SL []
            end
  | _ => bad
  end.

Definition req_cues (f : str -> option (list (list str))) (arg : sx) : sx :=
  match arg with SS s => of_opt of_strss (f s) | _ => bad end.

(* 305: WebVTT document of captions whose nodes carry layout identifiers (layout groups -> several cues per caption).
   arg = SL [SL [SS settings_of_layout_0; SS settings_of_layout_1; ...]; SL [SL [SS timing; SL [SL [SI layout; node]; ...]]; ...]] *)
Definition sx_lnode (x : sx) : option lnode :=
  match x with
  | SL [SI l; n] => match sx_node n with Some n' => Some (l, n') | None => None end
  | _ => None
  end.
Definition sx_cap_l (x : sx) : option (str * list lnode) :=
  match x with
  | SL [SS tl; ns] => match sx_listof sx_lnode ns with Some l => Some (tl, l) | None => None end
  | _ => None
  end.
Definition req_doc_g (arg : sx) : sx :=
  match arg with
  | SL [st; caps] =>
      match sx_strs st, sx_listof sx_cap_l caps with
      | Some tbl, Some c =>
          SL [SS (vtt_doc_g (fun l => nth (Z.to_nat l) tbl []) c);
              of_list (fun cap => of_list (fun g => SS (fst g)) (vtt_groups (snd cap))) c]
      | _, _ => bad
      end
  | _ => bad
  end.

Definition dispatch (code : Z) (arg : sx) : option sx :=
  match code with
  | 301 => Some (req_payload arg)
  | 302 => Some (req_doc vtt_doc arg)
  | 303 => Some (req_doc srt_doc arg)
  | 304 => Some (req_doc mdvd_doc arg)
  | 305 => Some (req_doc_g arg)
  | 310 => Some (req_parse arg)
  | 311 => Some (req_cues vtt_cue_lines arg)
  | 312 => Some (req_cues srt_cues arg)
  | 313 => Some (req_cues mdvd_cues arg)
  | 320 => Some (match arg with
                 | SL [a; o] => match sx_strss a, sx_strss o with
                                | Some a, Some o => of_bool (ok_cues a o)
                                | _, _ => bad
                                end
                 | _ => bad
                 end)
  | 323 => Some (match arg with
                 | SL [a; o] => match sx_strss a, sx_strss o with
                                | Some a, Some o => of_bool (ok_cues_strict a o)
                                | _, _ => bad
                                end
                 | _ => bad
                 end)
  | 321 => Some (match sx_nodes arg with Some l => of_strs (node_lines l) | None => bad end)
  | 322 => Some (match sx_strs arg with Some l => of_bool (visible_lines l) | None => bad end)
  | _ => None
  end.
