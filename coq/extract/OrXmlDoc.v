(* C01 requests 120..129 (wave 7): DFXP documents as text.
   120: abstract document -> [rendered text, model (dfxp_read_string on that text), expected, expected under the
        other begin+dur reading, in domain]
   121: any text -> model (dfxp_read_string) *)
From Coq Require Import List ZArith Bool.
From PV Require Import lib.Sx lib.Str lib.Result lib.Dec.
From PV Require Import model.Generated model.TimeRead model.TimeTree model.XmlRead.
From PV Require Import spec.SpecTime spec.SpecTimeTree spec.SpecXmlDocT extract.OrCommon extract.OrC01.
Import ListNotations.
Open Scope Z_scope.

Definition sx_afmt (x : sx) : option afmt :=
  match x with
  | SL [SS p; SS e1; SS e2; SI q] => Some (mkAf p e1 e2 (q =? 1))
  | _ => None
  end.
Definition sx_rattr (x : sx) : option rattr :=
  match x with
  | SL [f; SS n; SS v] => match sx_afmt f with Some f => Some (mkRa f n v) | None => None end
  | _ => None
  end.
Definition sx_rattrs := sx_listof sx_rattr.
Definition sx_tchar (x : sx) : option (Z * bool) :=
  match x with SL [SI c; SI r] => Some (c, r =? 1) | _ => None end.
Definition sx_tstr := sx_listof sx_tchar.
Definition sx_rtag (x : sx) : option rtag :=
  match x with
  | SL [a; SS e] => match sx_rattrs a with Some a => Some (mkRt a e) | None => None end
  | _ => None
  end.
Definition sx_pel (x : sx) : option pel :=
  match x with
  | SL [SI 0; SS w] => Some (PBr w)
  | SL [SI 1; t; txt; SS cw] =>
      match sx_rtag t, sx_tstr txt with Some t, Some txt => Some (PSpan t txt cw) | _, _ => None end
  | _ => None
  end.
Definition sx_item (x : sx) : option (tstr * pel) :=
  match x with
  | SL [t; e] => match sx_tstr t, sx_pel e with Some t, Some e => Some (t, e) | _, _ => None end
  | _ => None
  end.
Definition sx_content (x : sx) : option pcontent :=
  match x with
  | SL [items; last] =>
      match sx_listof sx_item items, sx_tstr last with Some i, Some l => Some (i, l) | _, _ => None end
  | _ => None
  end.
Definition sx_pattrs (x : sx) : option pattrs :=
  match x with
  | SL [SI 0; l1; l2; l3; SI sw; fb; fc; t] =>
      match sx_rattrs l1, sx_rattrs l2, sx_rattrs l3, sx_afmt fb, sx_afmt fc, sx_dfxp_p t with
      | Some l1, Some l2, Some l3, Some fb, Some fc, Some t => Some (PaTimed l1 l2 l3 (sw =? 1) fb fc t)
      | _, _, _, _, _, _ => None
      end
  | SL [SI 1; l] => match sx_rattrs l with Some l => Some (PaFree l) | None => None end
  | _ => None
  end.
Definition sx_lang (x : sx) : option (option (afmt * str)) :=
  match x with
  | SL [] => Some None
  | SL [SL [f; SS v]] => match sx_afmt f with Some f => Some (Some (f, v)) | None => None end
  | _ => None
  end.

Fixpoint sx_forest (x : sx) : option dforest :=
  match x with
  | SL [SI 0; SS w] => Some (FEnd w)
  | SL [SI 1; SS pre; pa; SS e; c; SS cw; next] =>
      match sx_pattrs pa, sx_content c, sx_forest next with
      | Some pa, Some c, Some next => Some (FP pre pa e c cw next)
      | _, _, _ => None
      end
  | SL [SI 2; SS pre; l1; lang; l2; SS e; kids; SS cw; next] =>
      match sx_rattrs l1, sx_lang lang, sx_rattrs l2, sx_forest kids, sx_forest next with
      | Some l1, Some lang, Some l2, Some kids, Some next => Some (FDiv pre l1 lang l2 e kids cw next)
      | _, _, _, _, _ => None
      end
  | SL [SI 3; SS pre; SS name; t; kids; SS cw; next] =>
      match sx_rtag t, sx_forest kids, sx_forest next with
      | Some t, Some kids, Some next => Some (FElem pre name t kids cw next)
      | _, _, _ => None
      end
  | SL [SI 4; SS pre; SS name; t; next] =>
      match sx_rtag t, sx_forest next with
      | Some t, Some next => Some (FEmpty pre name t next)
      | _, _ => None
      end
  | _ => None
  end.

Definition sx_xdoc (x : sx) : option xdoc :=
  match x with
  | SL [pi; SS pre; l1; lang; l2; SS e; body; SS cw; SS post] =>
      match sx_opt sx_str pi, sx_rattrs l1, sx_lang lang, sx_rattrs l2, sx_forest body with
      | Some pi, Some l1, Some lang, Some l2, Some body => Some (mkXd pi pre l1 lang l2 e body cw post)
      | _, _, _, _, _ => None
      end
  | _ => None
  end.

Definition req_xdoc (arg : sx) : sx :=
  match sx_xdoc arg with
  | Some d =>
      let text := render_doc d in
      SL [SS text;
          of_result of_dict (dfxp_read_string default_language_code text);
          of_result of_dict (xdoc_expected default_language_code d);
          of_result of_dict (xdoc_expected_alt default_language_code d);
          of_bool (xdoc_ok d && doc_dom (xdoc_divs d) (xdoc_ps d))]
  | None => bad
  end.

Definition req_read_text (arg : sx) : sx :=
  match arg with
  | SS s => of_result of_dict (dfxp_read_string default_language_code s)
  | _ => bad
  end.

Definition dispatch (code : Z) (arg : sx) : option sx :=
  match code with
  | 120 => Some (req_xdoc arg)
  | 121 => Some (req_read_text arg)
  | _ => None
  end.
