(* C06 requests: 600..609.  600 is the full SCC reader model and is shared by C05 C15 C16; 605 is the same model fed with
   the SCC TEXT through the Coq tokeniser (model/SccTokenise.v). *)
From Coq Require Import List ZArith QArith Bool.
From PV Require Import lib.Sx lib.Str lib.Result.
From PV Require Import model.SccTime model.SccStash model.SccDecoder model.SccTokenise model.SccPopon spec.SpecSccTime spec.SpecSccTime2 extract.OrCommon.
Import ListNotations.
Open Scope Z_scope.

Definition of_pos (p : pos) : list sx := [SI (fst p); SI (snd p)].
Definition of_cnode (n : cnode) : sx :=
  match n with
  | CText s p => SL (SI 0 :: SS s :: of_pos p)
  | CBreak p => SL (SI 1 :: of_pos p)
  | CStyle on p => SL (SI 2 :: of_bool on :: of_pos p)
  end.
Definition of_precap (c : precap) : sx :=
  SL [of_q (pc_start c); of_q (pc_end c); of_list of_cnode (pc_nodes c); of_opt (fun p => SL (of_pos p)) (pc_layout c)].
Definition of_read_result (r : read_result) : sx :=
  match r with
  | ROk caps => SL [SI 0; of_list of_precap caps]
  | RErr e => SL [SI 1; SI (err_code e)]
  | RLen m => SL [SI 2; SS m]
  end.

Definition sx_sline (x : sx) : option sline :=
  match x with
  | SL [SS tc; ws] => match sx_listof sx_int ws with Some l => Some (tc, l) | None => None end
  | _ => None
  end.

Definition sx_tc (x : sx) : option timecode :=
  match x with
  | SL [SI h; SI m; SI s; d; SI f] => match sx_bool d with Some d => Some (mkTc h m s d f) | None => None end
  | _ => None
  end.

(* event: [kind; timecode; k]  kind 0 = Show, 1 = Clear *)
Definition sx_ev (offset_us : Q) (x : sx) : option ev :=
  match x with
  | SL [SI kind; tc; SI k] =>
      match sx_tc tc with
      | Some tc => let t := Qred (spec_instant tc k offset_us) in
                   Some (if kind =? 0 then Show t else Clear t)
      | None => None
      end
  | _ => None
  end.

Definition sx_span (x : sx) : option (Q * Q) :=
  match x with SL [a; b] => match sx_q a, sx_q b with Some a, Some b => Some (a, b) | _, _ => None end | _ => None end.
Definition of_span (p : Q * Q) : sx := SL [of_q (fst p); of_q (snd p)].

Definition ev_time (e : ev) : Q := match e with Show t => t | Clear t => t end.
Definition to_pev (e : ev) : pev := match e with Show t => PShow t | Clear t => PHide t end.

Definition dispatch (code : Z) (arg : sx) : option sx :=
  match code with
  | 600 => Some (match arg with
                 | SL [off; ls] =>
                     match sx_q off, sx_listof sx_sline ls with
                     | Some off, Some ls => of_read_result (read off ls)
                     | _, _ => bad
                     end
                 | _ => bad
                 end)
  | 605 => Some (match arg with          (* [offset_us; text] -> read offset (tokenise text) *)
                 | SL [off; SS text] =>
                     match sx_q off with
                     | Some off => of_read_result (read off (tokenise text))
                     | None => bad
                     end
                 | _ => bad
                 end)
  | 601 => Some (match arg with          (* [offset_us; events; obs] -> [ok; expected(thr_hi); instants] *)
                 | SL [off; evs; obs] =>
                     match sx_q off with
                     | Some off =>
                         match sx_listof (sx_ev off) evs, sx_result (sx_listof sx_span) obs with
                         | Some evs, Some obs =>
                             SL [of_bool (ok_c06_gap evs obs);
                                 of_result (of_list of_span) (expected_with thr_hi evs);
                                 of_list of_q (map ev_time evs)]
                         | _, _ => bad
                         end
                     | None => bad
                     end
                 | _ => bad
                 end)
  | 602 => Some (match arg with          (* get_time: [timecode string; frames; offset_us] *)
                 | SL [SS tc; SI k; off] =>
                     match sx_q off with Some off => of_result of_q (get_time tc k off) | None => bad end
                 | _ => bad
                 end)
  | 603 => Some (match arg with          (* spec instant + rendered timecode: [timecode; k; offset_us] *)
                 | SL [tc; SI k; off] =>
                     match sx_tc tc, sx_q off with
                     | Some tc, Some off => SL [SS (render_tc tc); of_q (spec_instant tc k off)]
                     | _, _ => bad
                     end
                 | _ => bad
                 end)
  | 604 => Some (match arg with          (* event-level model: [offset_us; events] -> result spans *)
                 | SL [off; evs] =>
                     match sx_q off with
                     | Some off => match sx_listof (sx_ev off) evs with
                                   | Some evs => of_result (of_list of_span) (popon_read (map to_pev evs))
                                   | None => bad
                                   end
                     | None => bad
                     end
                 | _ => bad
                 end)
  | _ => None
  end.
