(* C08 requests: 800..809. *)
From Coq Require Import List ZArith QArith Bool.
From PV Require Import lib.Sx lib.Str lib.Result.
From PV Require Import model.Chain spec.SpecChain extract.OrCommon.
Import ListNotations.
Open Scope Z_scope.

Definition sx_fmt (x : sx) : option fmt :=
  match x with
  | SI 0 => Some FSrt | SI 1 => Some FVtt | SI 2 => Some FDfxp | SI 3 => Some FSami | SI 4 => Some FMdvd
  | _ => None
  end.
Definition sx_cue (x : sx) : option cue := match x with SL [SI a; SI b] => Some (a, b) | _ => None end.
Definition of_cue (c : cue) : sx := SL [SI (fst c); SI (snd c)].
Definition of_cues := of_list of_cue.

(* the model after every hop (stops at the first error) *)
Fixpoint run_trace (chain : list fmt) (cs : list cue) : list (result (list cue)) :=
  match chain with
  | [] => []
  | f :: t => match hop f cs with
              | Ok cs' => Ok cs' :: run_trace t cs'
              | Err e => [Err e]
              end
  end.

Definition req_trace (arg : sx) : sx :=
  match arg with
  | SL [ch; cs] =>
      match sx_listof sx_fmt ch, sx_listof sx_cue cs with
      | Some ch, Some cs => of_list (of_result of_cues) (run_trace ch cs)
      | _, _ => bad
      end
  | _ => bad
  end.

Definition req_expected (arg : sx) : sx :=
  match arg with
  | SL [ch; cs] =>
      match sx_listof sx_fmt ch, sx_listof sx_cue cs with
      | Some ch, Some cs => SL [of_cues (expected ch cs); of_bool (chain_dom ch cs)]
      | _, _ => bad
      end
  | _ => bad
  end.

Definition req_ok (arg : sx) : sx :=
  match arg with
  | SL [ch; cs; p1; p2] =>
      match sx_listof sx_fmt ch, sx_listof sx_cue cs, sx_result (sx_listof sx_cue) p1, sx_result (sx_listof sx_cue) p2 with
      | Some ch, Some cs, Some p1, Some p2 => of_bool (ok_chain ch cs p1 p2)
      | _, _, _, _ => bad
      end
  | _ => bad
  end.

(* 803: the MicroDVD document the writer model prints for cues with text lines *)
Definition sx_tcue (x : sx) : option (Z * Z * list str) :=
  match x with
  | SL [SI a; SI b; ls] => match sx_listof sx_str ls with Some ls => Some (a, b, ls) | None => None end
  | _ => None
  end.
Definition req_mdvd_write (arg : sx) : sx :=
  match sx_listof sx_tcue arg with
  | Some cs => SS (mdvd_write cs)
  | None => bad
  end.

(* 804: the SRT document the writer model prints for cues with text lines *)
Definition req_srt_write (arg : sx) : sx :=
  match sx_listof sx_tcue arg with
  | Some cs => SS (srt_write_doc cs)
  | None => bad
  end.

(* 805: the WebVTT document the writer model prints for cues with text lines *)
Definition req_vtt_write (arg : sx) : sx :=
  match sx_listof sx_tcue arg with
  | Some cs => SS (vtt_write_doc cs)
  | None => bad
  end.

(* 806 (wave 7): [chain, captions (start, end, text lines)] -> the document-level chain of the model (run_doc: every hop
   prints the document and reads it back with the string-level reader model; DFXP included) *)
Definition of_tcue (c : Z * Z * list str) : sx := SL [SI (fst (fst c)); SI (snd (fst c)); of_list SS (snd c)].
Definition req_run_doc (arg : sx) : sx :=
  match arg with
  | SL [ch; cs] =>
      match sx_listof sx_fmt ch, sx_listof sx_tcue cs with
      | Some ch, Some cs => of_result (of_list of_tcue) (run_doc ch cs)
      | _, _ => bad
      end
  | _ => bad
  end.

Definition dispatch (code : Z) (arg : sx) : option sx :=
  match code with
  | 800 => Some (req_trace arg)
  | 801 => Some (req_expected arg)
  | 802 => Some (req_ok arg)
  | 803 => Some (req_mdvd_write arg)
  | 804 => Some (req_srt_write arg)
  | 805 => Some (req_vtt_write arg)
  | 806 => Some (req_run_doc arg)
  | _ => None
  end.
