(* C09 requests: 900 run a history in the store model, 901 property oracle on the implementation's observations,
   902 run the same history with the writers executed as HEAP PROGRAMS (model/HeapProg.v: exec of prog_of kind),
   903 the ownership analysis and the assigned-before-read analysis on the eight writer programs and on the variants. *)
From Coq Require Import List ZArith Bool.
From PV Require Import lib.Sx lib.Result model.Store model.Iso model.HeapProg spec.SpecIso extract.OrCommon extract.IsoWire.
Import ListNotations.
Open Scope Z_scope.

Definition req_ok_c09 (arg : sx) : sx :=
  match sx_listof sx_iobs arg with
  | Some l => of_fail (ok_c09 l)
  | None => bad
  end.

Definition req_runP (arg : sx) : sx :=
  match arg with
  | SL [c; ops] =>
      match sx_cfg c, sx_listof sx_op ops with
      | Some c, Some ops =>
          of_list (fun r => SL [of_mobs (fst r); of_list of_tree (snd r)]) (runP c world0 ops)
      | _, _ => bad
      end
  | _ => bad
  end.

Definition accepted (p : cmd) : bool := match check p [] with Some _ => true | None => false end.

Definition req_check (arg : sx) : sx :=
  SL [of_list of_bool (map (fun k => accepted (prog_of k)) [1; 2; 3; 4; 5; 6; 7; 8]);
      of_list of_bool (map accepted [prog_dfxp_nocopy; prog_dfxp_shallow; prog_sami_nocopy; prog_sami_shallow;
                                     prog_legacy_merge_first; prog_single_nocopy]);
      of_list of_bool (map (fun k => match du (prog_of k) inst_regs with Some _ => true | None => false end)
                           [1; 2; 3; 4; 5; 6; 7; 8]);
      of_list of_bool (map (fun p => match du p inst_regs with Some _ => true | None => false end)
                           [prog_with false W_DFXP; prog_with false W_SAMI; prog_with false W_LEGACY;
                            prog_with false W_SINGLE; prog_vtt_no_global])].

Definition dispatch (code : Z) (arg : sx) : option sx :=
  match code with
  | 900 => Some (req_run arg)
  | 901 => Some (req_ok_c09 arg)
  | 902 => Some (req_runP arg)
  | 903 => Some (req_check arg)
  | _ => None
  end.
