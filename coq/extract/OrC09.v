(* C09 requests: 900 run a history in the store model, 901 property oracle on the implementation's observations. *)
From Coq Require Import List ZArith Bool.
From PV Require Import lib.Sx lib.Result model.Store model.Iso spec.SpecIso extract.OrCommon extract.IsoWire.
Import ListNotations.
Open Scope Z_scope.

Definition req_ok_c09 (arg : sx) : sx :=
  match sx_listof sx_iobs arg with
  | Some l => of_fail (ok_c09 l)
  | None => bad
  end.

Definition dispatch (code : Z) (arg : sx) : option sx :=
  match code with
  | 900 => Some (req_run arg)
  | 901 => Some (req_ok_c09 arg)
  | _ => None
  end.
