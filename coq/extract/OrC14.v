(* C14 requests: 1400..1421. *)
From Coq Require Import List ZArith Bool.
From PV Require Import lib.Sx lib.Str lib.Result.
From PV Require Import model.Langs spec.SpecLangs spec.SpecFindLang model.LangsMerge extract.OrCommon.
Import ListNotations.
Open Scope Z_scope.

Definition sx_cue (x : sx) : option (Z * str) :=
  match x with SL [SI s; SS t] => Some (s, t) | _ => None end.
Definition of_cue (c : Z * str) : sx := SL [SI (fst c); SS (snd c)].
Definition sx_capset (x : sx) : option (list (str * list (Z * str))) :=
  sx_listof (fun y => match y with
                      | SL [SS l; cs] => match sx_listof sx_cue cs with Some cs => Some (l, cs) | None => None end
                      | _ => None end) x.
Definition of_capset (cs : list (str * list (Z * str))) : sx :=
  of_list (fun lc => SL [SS (fst lc); of_list of_cue (snd lc)]) cs.
Definition sx_ostr := sx_opt sx_str.
Definition sx_divs (x : sx) : option (list (option str * list (Z * str))) :=
  sx_listof (fun y => match y with
                      | SL [l; cs] => match sx_ostr l, sx_listof sx_cue cs with
                                      | Some l, Some cs => Some (l, cs) | _, _ => None end
                      | _ => None end) x.
Definition of_doc (d : dfxp_doc) : sx :=
  SL [of_opt SS (d_tt d); of_list (fun dv => SL [of_opt SS (fst dv); of_list of_cue (snd dv)]) (d_divs d)].

(* a body tree: SL [SI 0; cue] is a <p>, SL [SI 1; lang option; SL kids] a <div> *)
Fixpoint sx_dnode (x : sx) : option dnode :=
  match x with
  | SL [SI 0; c] => match sx_cue c with Some c => Some (DP c) | None => None end
  | SL [SI 1; l; SL kids] =>
      match sx_ostr l,
            (fix go (ks : list sx) : option (list dnode) :=
               match ks with
               | [] => Some []
               | k :: t => match sx_dnode k, go t with Some n, Some r => Some (n :: r) | _, _ => None end
               end) kids with
      | Some l, Some kids => Some (DDiv l kids)
      | _, _ => None
      end
  | _ => None
  end.
Definition of_divs (dv : list (option str * list (Z * str))) : sx :=
  of_list (fun dv => SL [of_opt SS (fst dv); of_list of_cue (snd dv)]) dv.

Definition sx_attrs := sx_listof (fun y => match y with SL [SS a; SS v] => Some (a, v) | _ => None end).
Definition sx_styles : sx -> option sami_styles :=
  sx_listof (fun y => match y with
                      | SL [SS c; l] => match sx_ostr l with Some l => Some (c, l) | None => None end
                      | _ => None end).
Definition sx_p (x : sx) : option sami_p :=
  match x with
  | SL [a; SI s; SS t] => match sx_attrs a with Some a => Some (mkP a s t) | None => None end
  | _ => None
  end.
Definition sx_wcue (x : sx) : option wcue :=
  match x with SL [SI s; SI e; SS t] => Some (mkWcue s e t) | _ => None end.
Definition sx_wset : sx -> option (list (str * list wcue)) :=
  sx_listof (fun y => match y with
                      | SL [SS l; cs] => match sx_listof sx_wcue cs with Some cs => Some (l, cs) | None => None end
                      | _ => None end).
Definition of_body (b : body) : sx :=
  of_list (fun s => SL [SI (fst s); of_list (fun p => SL [SS (fst p); SS (snd p)]) (snd s)]) b.
Definition sx_body : sx -> option body :=
  sx_listof (fun y => match y with
                      | SL [SI s; ps] =>
                          match sx_listof (fun z => match z with SL [SS c; SS t] => Some (c, t) | _ => None end) ps with
                          | Some ps => Some (s, ps) | None => None end
                      | _ => None end).

(* wave 7: cues with nodes (None = line break) *)
Definition sx_mcue (x : sx) : option (Z * Z * list (option str)) :=
  match x with
  | SL [SI s; SI e; ns] => match sx_listof sx_ostr ns with Some ns => Some (s, e, ns) | None => None end
  | _ => None
  end.
Definition of_mcue (c : Z * Z * list (option str)) : sx :=
  SL [SI (fst (fst c)); SI (snd (fst c)); of_list (of_opt SS) (snd c)].
Definition sx_mset : sx -> option (list (str * list (Z * Z * list (option str)))) :=
  sx_listof (fun y => match y with
                      | SL [SS l; cs] => match sx_listof sx_mcue cs with Some cs => Some (l, cs) | None => None end
                      | _ => None end).
Definition of_mset (cs : list (str * list (Z * Z * list (option str)))) : sx :=
  of_list (fun lc => SL [SS (fst lc); of_list of_mcue (snd lc)]) cs.
Definition sx_sheet : sx -> option (list (str * str)) :=
  sx_listof (fun y => match y with SL [SS c; SS l] => Some (c, l) | _ => None end).

Definition dispatch7 (code : Z) (arg : sx) : option sx :=
  match code with
  | 1413 => Some (match arg with          (* [styles; attrs] -> find_lang *)
                  | SL [st; a] => match sx_styles st, sx_attrs a with
                                  | Some st, Some a => of_opt SS (find_lang a st) | _, _ => bad end
                  | _ => bad end)
  | 1414 => Some (match arg with          (* [styles; attrs; observed] -> ok_find_lang *)
                  | SL [st; a; o] => match sx_styles st, sx_attrs a, sx_ostr o with
                                     | Some st, Some a, Some o => of_bool (ok_find_lang st a o) | _, _, _ => bad end
                  | _ => bad end)
  | 1415 => Some (match arg with          (* [default; styles; list of attrs] -> [tags; langs] *)
                  | SL [SS default; st; ps] =>
                      match sx_styles st, sx_listof sx_attrs ps with
                      | Some st, Some ps => let r := p_langs default st ps in SL [of_list SS (fst r); of_list SS (snd r)]
                      | _, _ => bad end
                  | _ => bad end)
  | 1416 => Some (match arg with          (* [default; styles; list of attrs; tags; langs] -> ok_p_langs *)
                  | SL [SS default; st; ps; tg; ls] =>
                      match sx_styles st, sx_listof sx_attrs ps, sx_listof sx_str tg, sx_listof sx_str ls with
                      | Some st, Some ps, Some tg, Some ls => of_bool (ok_p_langs default st ps tg ls)
                      | _, _, _, _ => bad end
                  | _ => bad end)
  | 1417 => Some (match sx_sheet arg with  (* written language blocks -> the dict the parser rebuilds *)
                  | Some sh => of_list (fun kv => SL [SS (fst kv); of_opt SS (snd kv)]) (read_styles sh)
                  | None => bad end)
  | 1418 => Some (match arg with          (* [default; lang; class opt; styles; langs] -> language read back *)
                  | SL [SS default; SS lang; c; st; ls] =>
                      match sx_ostr c, sx_styles st, sx_listof sx_str ls with
                      | Some c, Some st, Some ls => SS (reread_lang default (p_class lang c st) (sheet_langs st ls))
                      | _, _, _ => bad end
                  | _ => bad end)
  | 1419 => Some (match sx_mset arg with Some cs => of_mset (merge_concurrent cs) | None => bad end)
  | 1421 => Some (match arg with          (* [force; legacy?; set with nodes] -> [document written after merging; merged set] *)
                  | SL [SS force; SI legacy; cs] =>
                      match sx_mset cs with
                      | Some cs => SL [if legacy =? 1 then of_result of_doc (legacy_merge_write force cs)
                                       else of_doc (single_write force cs);
                                       of_capset (flat_set (merge_concurrent cs))]
                      | None => bad end
                  | _ => bad end)
  | 1420 => Some (match arg with
                  | SL [cs; obs] => match sx_mset cs, sx_mset obs with
                                    | Some cs, Some obs => of_bool (ok_merge cs obs) | _, _ => bad end
                  | _ => bad end)
  | _ => None
  end.

Definition dispatch (code : Z) (arg : sx) : option sx :=
  match dispatch7 code arg with Some r => Some r | None =>
  match code with
  | 1400 => Some (match arg with
                  | SL [SS default; dl; divs] =>
                      match sx_ostr dl, sx_divs divs with
                      | Some dl, Some divs => of_capset (dfxp_read default (mkDfxp dl divs))
                      | _, _ => bad end
                  | _ => bad end)
  | 1401 => Some (match arg with
                  | SL [SS default; dl; divs; obs] =>
                      match sx_ostr dl, sx_divs divs, sx_capset obs with
                      | Some dl, Some divs, Some obs =>
                          SL [of_bool true; of_bool (ok_dfxp_read default dl divs obs)]
                      | _, _, _ => bad end
                  | _ => bad end)
  | 1402 => Some (match arg with
                  | SL [SS force; cs] => match sx_capset cs with Some cs => of_doc (dfxp_write force cs) | None => bad end
                  | _ => bad end)
  | 1403 => Some (match arg with
                  | SL [SS force; cs] => match sx_capset cs with
                                         | Some cs => of_result of_doc (legacy_write force cs) | None => bad end
                  | _ => bad end)
  | 1404 => Some (match arg with
                  | SL [SS force; cs; obs] =>
                      match sx_capset cs, sx_capset obs with
                      | Some cs, Some obs => of_bool (ok_dfxp_write force cs obs)
                      | _, _ => bad end
                  | _ => bad end)
  | 1405 => Some (match arg with
                  | SL [SS default; st; ps] =>
                      match sx_styles st, sx_listof sx_p ps with
                      | Some st, Some ps =>
                          SL [of_capset (sami_read default st ps);
                              of_list (fun p => SL [SS (p_lang default (sp_attrs p) st);
                                                    of_cue (sp_start p * 1000, sp_text p);
                                                    of_bool (is_blank_text (sp_text p))]) ps]
                      | _, _ => bad end
                  | _ => bad end)
  | 1406 => Some (match arg with
                  | SL [tagged; obs] =>
                      match sx_listof (fun y => match y with
                                                | SL [SS l; c; b] => match sx_cue c, sx_bool b with
                                                                     | Some c, Some b => Some (l, c, b) | _, _ => None end
                                                | _ => None end) tagged, sx_capset obs with
                      | Some tagged, Some obs => of_bool (ok_sami_read tagged obs)
                      | _, _ => bad
                      end
                  | _ => bad end)
  | 1407 => Some (match sx_wset arg with Some cs => of_body (sami_write cs) | None => bad end)
  | 1408 => Some (match arg with
                  | SL [cs; b] => match sx_capset cs, sx_body b with
                                  | Some cs, Some b => of_bool (ok_sami_body cs b) | _, _ => bad end
                  | _ => bad end)
  | 1409 => Some (match arg with
                  | SL [l; cs] => match sx_ostr l, sx_capset cs with
                                  | Some l, Some cs => of_result (of_list of_cue) (vtt_select l cs) | _, _ => bad end
                  | _ => bad end)
  | 1410 => Some (match arg with
                  | SL [l; cs; obs] => match sx_ostr l, sx_capset cs, sx_listof sx_cue obs with
                                       | Some l, Some cs, Some obs => of_bool (ok_pick l cs obs) | _, _, _ => bad end
                  | _ => bad end)
  | 1411 => Some (match arg with          (* [lang; class opt; styles; langs] -> [p_class; sheet; resolved] *)
                  | SL [SS lang; c; st; ls] =>
                      match sx_ostr c, sx_styles st, sx_listof sx_str ls with
                      | Some c, Some st, Some ls =>
                          let pc := p_class lang c st in
                          let sh := sheet_langs st ls in
                          SL [SS pc; of_list (fun kv => SL [SS (fst kv); SS (snd kv)]) sh; of_opt SS (resolve_class pc sh)]
                      | _, _, _ => bad end
                  | _ => bad end)
  | 1412 => Some (match arg with          (* [default; tt; body tree] -> [capset read; segments] *)
                  | SL [SS default; dl; tree] =>
                      match sx_ostr dl, sx_listof sx_dnode tree with
                      | Some dl, Some nodes =>
                          SL [of_capset (dfxp_read_tree default dl nodes); of_divs (flatten_body nodes)]
                      | _, _ => bad end
                  | _ => bad end)
  | _ => None
  end end.
