(* C01 requests 122 / 123 (round 4): SAMI documents as text.
   122: [styles (class, lang), abstract document] -> [rendered body text, model (sami_read_string), expected, in domain]
   123: [styles, text from <BODY> on] -> model *)
From Coq Require Import List ZArith Bool.
From PV Require Import lib.Sx lib.Str lib.Result lib.Dec.
From PV Require Import model.Generated model.TimeRead model.TimeTree model.XmlRead model.SamiText.
From PV Require Import spec.SpecTime spec.SpecTimeTree spec.SpecXmlDocT spec.SpecSamiText extract.OrCommon extract.OrC01.
Import ListNotations.
Open Scope Z_scope.

Definition sx_sattr (x : sx) : option sattr :=
  match x with SL [SS p; SS n; SS e1; SS e2; SI q; SS v] => Some (mkSa p n e1 e2 q v) | _ => None end.
Definition sx_stag (x : sx) : option stag :=
  match x with
  | SL [SS n; a; SS e] => match sx_listof sx_sattr a with Some a => Some (mkSt n a e) | None => None end
  | _ => None
  end.
Definition sx_close (x : sx) : option (str * str) := match x with SL [SS n; SS w] => Some (n, w) | _ => None end.
Definition sx_schar (x : sx) : option schar :=
  match x with SL [SI 0; SI c] => Some (ScLit c) | SL [SI 1; SI c] => Some (ScRef c) | SL [SI 2] => Some ScNbsp | _ => None end.
Definition sx_srun := sx_listof sx_schar.
Definition sx_sbr (x : sx) : option sbr := match x with SL [SS n; SS w; SI s] => Some (mkBr n w (s =? 1)) | _ => None end.
Definition sx_sitem (x : sx) : option (srun * sbr) :=
  match x with SL [r; b] => match sx_srun r, sx_sbr b with Some r, Some b => Some (r, b) | _, _ => None end | _ => None end.
Definition sx_scontent (x : sx) : option scontent :=
  match x with
  | SL [i; l] => match sx_listof sx_sitem i, sx_srun l with Some i, Some l => Some (i, l) | _, _ => None end
  | _ => None
  end.
Definition sx_spar (x : sx) : option spar :=
  match x with
  | SL [t; SS lang; c; cl; SS after] =>
      match sx_stag t, sx_scontent c, sx_close cl with
      | Some t, Some c, Some cl => Some (mkSpar t lang c cl after)
      | _, _, _ => None
      end
  | _ => None
  end.
Definition sx_ssync (x : sx) : option ssync :=
  match x with
  | SL [t; SI pad; SI ms; SS w; ps; cl; SS after] =>
      match sx_stag t, sx_listof sx_spar ps, sx_close cl with
      | Some t, Some ps, Some cl => if pad <? 0 then None else Some (mkSsync t (Z.to_nat pad) ms w ps cl after)
      | _, _, _ => None
      end
  | _ => None
  end.
Definition sx_tail (x : sx) : option ((str * str) * str) :=
  match x with SL [c; SS w] => match sx_close c with Some c => Some (c, w) | None => None end | _ => None end.
Definition sx_sdoc (x : sx) : option sdoc :=
  match x with
  | SL [t; SS w; ss; tl] =>
      match sx_stag t, sx_listof sx_ssync ss, sx_listof sx_tail tl with
      | Some t, Some ss, Some tl => Some (mkSdoc t w ss tl)
      | _, _, _ => None
      end
  | _ => None
  end.
Definition sx_style (x : sx) : option (str * str) := match x with SL [SS c; SS l] => Some (c, l) | _ => None end.

Definition req_sdoc (arg : sx) : sx :=
  match arg with
  | SL [st; d] =>
      match sx_listof sx_style st, sx_sdoc d with
      | Some st, Some d =>
          let text := render_sdoc d in
          SL [SS text;
              of_result of_dict (sami_read_string default_language_code st text);
              of_result of_dict (sdoc_expected d);
              of_bool (sdoc_ok default_language_code st d && sami_tree_dom (sdoc_langs d) (sdoc_body d))]
      | _, _ => bad
      end
  | _ => bad
  end.

Definition req_sami_text (arg : sx) : sx :=
  match arg with
  | SL [st; SS s] =>
      match sx_listof sx_style st with
      | Some st => of_result of_dict (sami_read_string default_language_code st s)
      | None => bad
      end
  | _ => bad
  end.

Definition dispatch (code : Z) (arg : sx) : option sx :=
  match code with
  | 122 => Some (req_sdoc arg)
  | 123 => Some (req_sami_text arg)
  | _ => None
  end.
