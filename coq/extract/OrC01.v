(* C01 requests: 100..119.  Abstract documents come in, (rendered text, model observation,
   expected observation) go out; 105 evaluates the property oracle on an observation. *)
From Coq Require Import List ZArith QArith Bool.
From PV Require Import lib.Sx lib.Str lib.Result lib.Dec.
From PV Require Import model.Generated model.TimeRead model.TimeTree spec.SpecTime spec.SpecTimeTree extract.OrCommon.
Import ListNotations.
Open Scope Z_scope.

Definition sx_nat (x : sx) : option nat :=
  match x with SI z => if z <? 0 then None else Some (Z.to_nat z) | _ => None end.
Definition sx_strs := sx_listof sx_str.
Definition sx_ints := sx_listof sx_int.

Definition of_pair (p : Z * Z) : sx := SL [SI (fst p); SI (snd p)].
Definition of_pairs := of_list of_pair.
Definition sx_pair (x : sx) : option (Z * Z) :=
  match x with SL [SI a; SI b] => Some (a, b) | _ => None end.
Definition sx_pairs := sx_listof sx_pair.

Definition times_of (r : result (list rcap)) : result (list (Z * Z)) :=
  match r with Ok l => Ok (map (fun c => (fst (fst c), snd (fst c))) l) | Err e => Err e end.
Definition of_rcaps (r : result (list rcap)) : sx :=
  of_result (of_list (fun c : rcap => SL [SI (fst (fst c)); SI (snd (fst c)); of_list SS (snd c)])) r.

(* ---- decoders ------------------------------------------------------------- *)
Definition sx_srt_stamp (x : sx) : option srt_stamp :=
  match x with
  | SL [k; SI h; SI m; SI s; f] =>
      match sx_nat k, sx_opt sx_int f with
      | Some k, Some f => Some (mkSrt k h m s f)
      | _, _ => None
      end
  | _ => None
  end.
Definition sx_srt_cue (x : sx) : option srt_cue :=
  match x with
  | SL [SI idx; t0; t1; ls; g] =>
      match sx_srt_stamp t0, sx_srt_stamp t1, sx_strs ls, sx_nat g with
      | Some t0, Some t1, Some ls, Some g => Some (mkSrtCue idx t0 t1 ls g)
      | _, _, _, _ => None
      end
  | _ => None
  end.

Definition sx_vtt_stamp (x : sx) : option vtt_stamp :=
  match x with
  | SL [h; SI m; SI s; SI ms] =>
      match h with
      | SL [] => Some (mkVtt None m s ms)
      | SL [SL [k; SI hh]] => match sx_nat k with Some k => Some (mkVtt (Some (k, hh)) m s ms) | None => None end
      | _ => None
      end
  | _ => None
  end.
Definition sx_vtt_cue (x : sx) : option vtt_cue :=
  match x with
  | SL [pre; t0; t1; SS w1; SS w2; st; ls; g] =>
      match sx_strs pre, sx_vtt_stamp t0, sx_vtt_stamp t1, sx_opt sx_str st, sx_strs ls, sx_nat g with
      | Some pre, Some t0, Some t1, Some st, Some ls, Some g => Some (mkVttCue pre t0 t1 w1 w2 st ls g)
      | _, _, _, _, _, _ => None
      end
  | _ => None
  end.

Definition sx_tail (x : sx) : option clock_tail :=
  match x with
  | SL [SI 0] => Some NoFrac
  | SL [SI 1; ds] => match sx_ints ds with Some ds => Some (Frac ds) | None => None end
  | SL [SI 2; SI ff] => Some (Frames ff)
  | _ => None
  end.
Definition sx_metric (x : sx) : option metric :=
  match x with
  | SI 0 => Some Mh | SI 1 => Some Mm | SI 2 => Some Ms | SI 3 => Some Mms | SI 4 => Some Mf
  | _ => None
  end.
Definition sx_texpr (x : sx) : option texpr :=
  match x with
  | SL [SI 0; k; SI h; SI m; SI s; t] =>
      match sx_nat k, sx_tail t with Some k, Some t => Some (Clock k h m s t) | _, _ => None end
  | SL [SI 1; k; SI ip; fr; mt] =>
      match sx_nat k, sx_ints fr, sx_metric mt with
      | Some k, Some fr, Some mt => Some (Offset k ip fr mt)
      | _, _, _ => None
      end
  | _ => None
  end.
Definition sx_dfxp_p (x : sx) : option dfxp_p :=
  match x with
  | SL [b; d; c] =>
      match sx_texpr b, sx_bool d, sx_texpr c with
      | Some b, Some d, Some c => Some (mkP b d c)
      | _, _, _ => None
      end
  | _ => None
  end.

Definition sx_sami_p (x : sx) : option sami_p :=
  match x with
  | SL [k; SI ms; t] => match sx_nat k, sx_bool t with Some k, Some t => Some (mkSp k ms t) | _, _ => None end
  | _ => None
  end.

Definition sx_fps (x : sx) : option fps_lit :=
  match x with
  | SL [k; SI ip; fr] => match sx_nat k, sx_ints fr with Some k, Some fr => Some (mkFps k ip fr) | _, _ => None end
  | _ => None
  end.
Definition sx_mdvd_cue (x : sx) : option mdvd_cue :=
  match x with
  | SL [k0; SI n0; k1; SI n1; ls] =>
      match sx_nat k0, sx_nat k1, sx_strs ls with
      | Some k0, Some k1, Some ls => Some (mkMc k0 n0 k1 n1 ls)
      | _, _, _ => None
      end
  | _ => None
  end.

Definition of_ostr (o : option str) : sx := of_opt SS o.

(* ---- requests ---------------------------------------------------------------- *)
(* 100: [crlf, cues] *)
Definition req_srt (arg : sx) : sx :=
  match arg with
  | SL [c; cs] =>
      match sx_bool c, sx_listof sx_srt_cue cs with
      | Some c, Some cs =>
          let doc := srt_render c cs in
          SL [SS doc; of_rcaps (srt_read doc); of_pairs (srt_expected cs);
              of_bool (forallb srt_cue_dom cs)]
      | _, _ => bad
      end
  | _ => bad
  end.

(* 101: [strict, shift_ms, crlf, cues] *)
Definition req_vtt (arg : sx) : sx :=
  match arg with
  | SL [st; SI sh; c; cs] =>
      match sx_bool st, sx_bool c, sx_listof sx_vtt_cue cs with
      | Some st, Some c, Some cs =>
          let doc := vtt_render c cs in
          SL [SS doc; of_rcaps (vtt_read st sh doc); of_pairs (vtt_expected sh cs);
              of_bool (forallb vtt_cue_dom cs); of_bool (vtt_sorted_from sh 0 cs)]
      | _, _, _ => bad
      end
  | _ => bad
  end.

(* 102: [crlf, opt fps, cues] *)
Definition req_mdvd (arg : sx) : sx :=
  match arg with
  | SL [c; f; cs] =>
      match sx_bool c, sx_opt sx_fps f, sx_listof sx_mdvd_cue cs with
      | Some c, Some f, Some cs =>
          let doc := mdvd_render c f cs in
          SL [SS doc; of_rcaps (mdvd_read doc); of_pairs (mdvd_expected f cs);
              of_bool (fps_dom f && forallb mdvd_cue_dom cs)]
      | _, _, _ => bad
      end
  | _ => bad
  end.

(* 103: list of p *)
Definition req_dfxp (arg : sx) : sx :=
  match sx_listof sx_dfxp_p arg with
  | Some ps =>
      let attrs := map dfxp_p_attrs ps in
      SL [of_list (fun a : option str * option str * option str =>
                     SL [of_ostr (fst (fst a)); of_ostr (snd (fst a)); of_ostr (snd a)]) attrs;
          of_result of_pairs (dfxp_div_times attrs);
          of_pairs (map dfxp_p_expected ps);
          of_bool (forallb dfxp_p_dom ps);
          of_pairs (map dfxp_p_expected_alt ps)]
  | None => bad
  end.

(* 104: list of sami p *)
Definition req_sami (arg : sx) : sx :=
  match sx_listof sx_sami_p arg with
  | Some ps =>
      let strs := map (fun p => (Some (sami_render_start p), sp_text p)) ps in
      let abs := map (fun p => (sp_ms p, sp_text p)) ps in
      SL [of_list (fun p => SS (sami_render_start p)) ps;
          of_result of_pairs (sami_translate_str strs);
          of_pairs (sami_expected abs);
          of_bool (sami_dom abs)]
  | None => bad
  end.

(* 105: [expected, obs] *)
Definition req_ok (arg : sx) : sx :=
  match arg with
  | SL [e; o] =>
      match sx_pairs e, sx_result sx_pairs o with
      | Some e, Some o => of_bool (ok_times e o)
      | _, _ => bad
      end
  | _ => bad
  end.

(* 116: [expected, expected under the other reading, obs] *)
Definition req_ok_alt (arg : sx) : sx :=
  match arg with
  | SL [e1; e2; o] =>
      match sx_pairs e1, sx_pairs e2, sx_result sx_pairs o with
      | Some e1, Some e2, Some o => of_bool (ok_times_alt e1 e2 o)
      | _, _, _ => bad
      end
  | _ => bad
  end.

(* raw model entry points on arbitrary strings *)
Definition req_raw (f : str -> result Z) (arg : sx) : sx :=
  match arg with SS s => of_result SI (f s) | _ => bad end.
Definition req_raw_read (f : str -> result (list rcap)) (arg : sx) : sx :=
  match arg with SS s => of_rcaps (f s) | _ => bad end.
Definition req_raw_vtt (arg : sx) : sx :=
  match arg with
  | SL [st; SI sh; SS s] => match sx_bool st with Some st => of_rcaps (vtt_read st sh s) | None => bad end
  | _ => bad
  end.
(* 111: raw dfxp <p> attribute triples *)
Definition req_raw_dfxp (arg : sx) : sx :=
  match sx_listof (fun x => match x with
                            | SL [b; e; d] =>
                                match sx_opt sx_str b, sx_opt sx_str e, sx_opt sx_str d with
                                | Some b, Some e, Some d => Some (b, e, d)
                                | _, _, _ => None
                                end
                            | _ => None
                            end) arg with
  | Some ps => of_result of_pairs (dfxp_div_times ps)
  | None => bad
  end.
(* 112: raw sami (start string option, has text) *)
Definition req_raw_sami (arg : sx) : sx :=
  match sx_listof (fun x => match x with
                            | SL [s; t] =>
                                match sx_opt sx_str s, sx_bool t with
                                | Some s, Some t => Some (s, t)
                                | _, _ => None
                                end
                            | _ => None
                            end) arg with
  | Some ps => of_result of_pairs (sami_translate_str ps)
  | None => bad
  end.

(* ---- abstract trees (114 DFXP, 115 SAMI) ---------------------------------------------------------- *)
Definition sx_attr (x : sx) : option (str * str) :=
  match x with SL [SS n; SS v] => Some (n, v) | _ => None end.
Definition sx_ap (x : sx) : option ap :=
  match x with
  | SL [SI 0; ex; t] => match sx_listof sx_attr ex, sx_dfxp_p t with
                        | Some ex, Some t => Some (APText ex t)
                        | _, _ => None
                        end
  | SL [SI 1; a] => match sx_listof sx_attr a with Some a => Some (APBlank a) | None => None end
  | _ => None
  end.
Definition sx_chain := sx_listof (sx_opt sx_str).
Definition sx_docp (x : sx) : option (option (list (option str)) * ap) :=
  match x with
  | SL [c; p] => match sx_opt sx_chain c, sx_ap p with
                 | Some c, Some p => Some (c, p)
                 | _, _ => None
                 end
  | _ => None
  end.
Definition of_dict (d : list (str * list (Z * Z))) : sx :=
  of_list (fun kv : str * list (Z * Z) => SL [SS (fst kv); of_pairs (snd kv)]) d.
Definition of_xp (p : xp) : sx :=
  SL [of_list (fun nv : str * str => SL [SS (fst nv); SS (snd nv)]) (xp_attrs p); of_bool (xp_text p)].

(* 114: [tt lang, div chains, paragraphs (chain option, ap)] ->
        [rendered paragraphs, model, expected, expected under the other begin+dur reading, in domain] *)
Definition req_dfxp_doc (arg : sx) : sx :=
  match arg with
  | SL [tl; dvs; ps] =>
      match sx_opt sx_str tl, sx_listof sx_chain dvs, sx_listof sx_docp ps with
      | Some tlang, Some dvs, Some ps =>
          let rendered := map (fun cp : option (list (option str)) * ap => (fst cp, ap_render (snd cp))) ps in
          SL [of_list (fun cp : option (list (option str)) * xp => of_xp (snd cp)) rendered;
              of_result of_dict (dfxp_read_doc default_language_code tlang dvs rendered);
              of_result of_dict (set_result (doc_expected default_language_code tlang dvs ps));
              of_result of_dict (set_result (doc_expected_alt default_language_code tlang dvs ps));
              of_bool (doc_dom dvs ps)]
      | _, _, _ => bad
      end
  | _ => bad
  end.

Definition sx_async (x : sx) : option async :=
  match x with
  | SL [k; SI ms; ps] =>
      match sx_nat k, sx_listof (fun y => match y with
                                          | SL [SS l; b] => match sx_bool b with Some b => Some (l, b) | None => None end
                                          | _ => None
                                          end) ps with
      | Some k, Some ps => Some (k, ms, ps)
      | _, _ => None
      end
  | _ => None
  end.

Definition req_sami_tree (arg : sx) : sx :=
  match arg with
  | SL [ls; body] =>
      match sx_strs ls, sx_listof sx_async body with
      | Some ls, Some body =>
          SL [of_result of_dict (sami_read_tree ls (map async_render body));
              of_result of_dict (set_result (sami_tree_expected ls body));
              of_bool (sami_tree_dom ls body)]
      | _, _ => bad
      end
  | _ => bad
  end.

Definition dispatch (code : Z) (arg : sx) : option sx :=
  match code with
  | 100 => Some (req_srt arg)
  | 101 => Some (req_vtt arg)
  | 102 => Some (req_mdvd arg)
  | 103 => Some (req_dfxp arg)
  | 104 => Some (req_sami arg)
  | 105 => Some (req_ok arg)
  | 106 => Some (req_raw srt_to_micro arg)
  | 107 => Some (req_raw vtt_timestamp arg)
  | 108 => Some (req_raw dfxp_time arg)
  | 109 => Some (req_raw_read srt_read arg)
  | 110 => Some (req_raw_read mdvd_read arg)
  | 111 => Some (req_raw_dfxp arg)
  | 112 => Some (req_raw_sami arg)
  | 113 => Some (req_raw_vtt arg)
  | 114 => Some (req_dfxp_doc arg)
  | 115 => Some (req_sami_tree arg)
  | 116 => Some (req_ok_alt arg)
  | _ => None
  end.
