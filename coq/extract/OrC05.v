(* C05 requests: 500..509. *)
From Coq Require Import List ZArith QArith Bool.
From PV Require Import lib.Sx lib.Str lib.Result model.SccStash model.SccLayout spec.Spec608 spec.SpecScc05 spec.SpecScc05Inline spec.SpecSccMixed extract.OrCommon.
Import ListNotations.
Open Scope Z_scope.

Definition sx_item (x : sx) : option item :=
  match x with
  | SL [SI 0; SI c] => Some (Ch c)
  | SL [SI 1; SI i] => Some (Sp i)
  | SL [SI 2; SI s; SI g; SI i] => Some (Ext s g i)
  | SL [SI 3; SI a] => Some (Mid a)
  | SL [SI 5] => Some Bs
  | _ => None
  end.
Definition sx_row (x : sx) : option row :=
  match x with
  | SL [SI r; SI ind; SI tab; SI st; items] =>
      match sx_listof sx_item items with
      | Some items => Some (mkRow r ind tab st items)
      | None => None
      end
  | _ => None
  end.
Definition sx_program (x : sx) : option program :=
  match x with
  | SL [d; loads] =>
      match sx_bool d, sx_listof (sx_listof sx_row) loads with
      | Some d, Some loads => Some (mkProg d loads)
      | _, _ => None
      end
  | _ => None
  end.

Definition sx_onode (x : sx) : option onode :=
  match x with
  | SL [SI 0; SS s] => Some (OText s)
  | SL [SI 1] => Some OBreak
  | SL [SI 2; b] => match sx_bool b with Some b => Some (OStyle b) | None => None end
  | _ => None
  end.
Definition sx_xy (x : sx) : option (Q * Q) :=
  match x with SL [a; b] => match sx_q a, sx_q b with Some a, Some b => Some (a, b) | _, _ => None end | _ => None end.
Definition sx_ocap (x : sx) : option ocap :=
  match x with
  | SL [a; b; ns; xy] =>
      match sx_q a, sx_q b, sx_listof sx_onode ns, sx_opt sx_xy xy with
      | Some a, Some b, Some ns, Some xy => Some (mkO a b ns xy)
      | _, _, _, _ => None
      end
  | _ => None
  end.

Definition dispatch (code : Z) (arg : sx) : option sx :=
  match code with
  | 500 => Some (of_list (fun p : pos => let '(x, y) := layout_of_pos p in SL [SI (fst p); SI (snd p); of_q x; of_q y])
                         grid_positions)
  | 501 => Some (match sx_program arg with       (* -> [dom; independent; words of each load; words of the final clear] *)
                 | Some p => SL [of_bool (dom_c05 p); of_bool (dom_c05_wide p);
                                 of_list (fun l => of_list SI (emit_load (pg_doubled p) l)) (pg_loads p);
                                 of_list SI (emit_clear (pg_doubled p))]
                 | None => bad
                 end)
  | 502 => Some (match arg with                  (* [program; obs] -> ok *)
                 | SL [p; obs] =>
                     match sx_program p, sx_result (sx_listof sx_ocap) obs with
                     | Some p, Some obs => of_bool (ok_c05 p obs)
                     | _, _ => bad
                     end
                 | _ => bad
                 end)
  | 506 => Some (match sx_program arg with       (* wave 7: the words of each load in the writer's layout ENM RCL rows EDM EOC *)
                 | Some p => of_list (fun l => of_list SI (emit_load_w (pg_doubled p) l)) (pg_loads p)
                 | None => bad
                 end)
  | 507 => Some (match sx_program arg with       (* wave 8: per load [mixed_ok; words of the writer-style line, codes inside rows single] *)
                 | Some p => of_list (fun l => SL [of_bool (mixed_ok l); of_list SI (emit_load_wm l)]) (pg_loads p)
                 | None => bad
                 end)
  | _ => None
  end.
