(* C05 requests: 500.. *)
From Coq Require Import List ZArith QArith Bool.
From PV Require Import lib.Sx lib.Str lib.Result model.SccStash model.SccLayout extract.OrCommon.
Import ListNotations.
Open Scope Z_scope.

Definition dispatch (code : Z) (arg : sx) : option sx :=
  match code with
  | 500 => Some (of_list (fun p : pos => let '(x, y) := layout_of_pos p in SL [SI (fst p); SI (snd p); of_q x; of_q y])
                         grid_positions)
  | _ => None
  end.
