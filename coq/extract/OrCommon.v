(* Helpers shared by the per-area oracle files (wire <-> model values). *)
From Coq Require Import List ZArith QArith Bool.
From PV Require Import lib.Sx lib.Str lib.Result.
From PV Require Import model.Base.
Import ListNotations.
Open Scope Z_scope.

Definition bad : sx := SL [SI (-1)].

Definition sx_q (x : sx) : option Q :=
  match x with
  | SL [SI n; SI d] => if 0 <? d then Some (n # Z.to_pos d) else None
  | _ => None
  end.
Definition of_q (q : Q) : sx := let r := Qred q in SL [SI (Qnum r); SI (Zpos (Qden r))].

Definition sx_cap (x : sx) : option caption :=
  match x with
  | SL [a; b; ns] =>
      match sx_q a, sx_q b, sx_listof sx_int ns with
      | Some s, Some e, Some l => Some (mkCap s e l)
      | _, _, _ => None
      end
  | _ => None
  end.
Definition of_cap (c : caption) : sx := SL [of_q (c_start c); of_q (c_end c); of_list SI (c_nodes c)].
Definition sx_langs := sx_listof (sx_listof sx_cap).
Definition of_langs := of_list (of_list of_cap).

Definition of_optz (o : option Z) : sx := of_opt SI o.

