(* C04 requests 400..419: spec serialisers / display, reader models, regex matchers. *)
From Coq Require Import List ZArith Bool.
From PV Require Import lib.Sx lib.Str lib.Result.
From PV Require Import model.TextNodes model.TextRead.
From PV Require Import spec.SpecTextXml spec.SpecTextLines spec.SpecTextRead spec.SpecTextDfxpStr extract.OrCommon extract.OrC03.
Import ListNotations.
Open Scope Z_scope.

Definition sx_schar (x : sx) : option schar :=
  match x with SL [SI c; SI sp] => Some (c, sp) | _ => None end.
Definition sx_schars := sx_listof sx_schar.

Definition sx_item (x : sx) : option item :=
  match x with
  | SL [SI 0; cs] => match sx_schars cs with Some l => Some (ITxt l) | None => None end
  | SL [SI 1; SI n] => Some (IWrap n)
  | SL [SI 2] => Some IBr
  | SL [SI 3; SI k] => Some (IOpen k)
  | SL [SI 4; SI k] => Some (IClose k)
  | SL [SI 5; cls; nm] =>
      match sx_strs cls, sx_schars nm with Some c, Some n => Some (IVoice c n) | _, _ => None end
  | SL [SI 6; SS s] => Some (IStamp s)
  | SL [SI 7; c; SS n] => match sx_bool c with Some b => Some (IUnk b n) | None => None end
  | SL [SI 8; SS n; SI c] => Some (IEnt n c)
  | SL [SI 9; SS s] => Some (ICom s)
  | SL [SI 10; SS s] => Some (IPi s)
  | _ => None
  end.
Definition sx_items := sx_listof sx_item.

Definition of_attrs (a : list (str * str)) : sx := of_list (fun p => SL [SS (fst p); SS (snd p)]) a.
Definition sx_attrs := sx_listof (fun x => match x with SL [SS k; SS v] => Some (k, v) | _ => None end).

Definition of_hev (e : hev) : sx :=
  match e with
  | EvStart t a => SL [SI 0; SS t; of_attrs a]
  | EvEnd t => SL [SI 1; SS t]
  | EvEntity n => SL [SI 2; SS n]
  | EvCharref n => SL [SI 3; SS n]
  | EvData d => SL [SI 4; SS d]
  end.
Definition sx_hev (x : sx) : option hev :=
  match x with
  | SL [SI 0; SS t; a] => match sx_attrs a with Some l => Some (EvStart t l) | None => None end
  | SL [SI 1; SS t] => Some (EvEnd t)
  | SL [SI 2; SS n] => Some (EvEntity n)
  | SL [SI 3; SS n] => Some (EvCharref n)
  | SL [SI 4; SS d] => Some (EvData d)
  | _ => None
  end.

Definition of_nodes (l : list node) : sx := of_list of_node l.

Definition sx_nat (x : sx) : option nat := match x with SI z => Some (Z.to_nat z) | _ => None end.
Definition sx_block (x : sx) : option (vblock * nat) :=
  match x with
  | SL [SI 0; ident; SS timing; its; g] =>
      match sx_opt sx_str ident, sx_items its, sx_nat g with
      | Some i, Some l, Some g => Some (BCue i timing l, g)
      | _, _, _ => None end
  | SL [SI 1; ls; g] =>
      match sx_strs ls, sx_nat g with Some l, Some g => Some (BOther l, g) | _, _ => None end
  | _ => None
  end.

Definition req_read (arg : sx) : sx :=
  match arg with
  | SL [SI fmt; fx; its] =>
      match sx_bool fx, sx_items its with
      | Some fixed, Some items =>
          if fmt =? 0 then of_opt of_nodes (read_dfxp fixed items)
          else if fmt =? 1 then of_opt of_nodes (read_sami fixed items)
          else if fmt =? 2 then of_opt of_nodes (Some (read_vtt fixed items))
          else if fmt =? 3 then of_opt of_nodes (Some (read_srt items))
          else of_opt of_nodes (Some (read_mdvd items))
      | _, _ => bad
      end
  | _ => bad
  end.

Definition sx_wline (x : sx) : option wline :=
  match x with
  | SL [SS w; tl] =>
      match sx_listof (fun e => match e with SL [SS i; SS v] => Some (i, v) | _ => None end) tl with
      | Some t => Some (w, t)
      | None => None
      end
  | _ => None
  end.

Definition dispatch (code : Z) (arg : sx) : option sx :=
  match code with
  | 400 => Some (match arg with
                 | SL [SI fmt; its] => match sx_items its with Some l => SS (serialise fmt l) | None => bad end
                 | _ => bad end)
  | 401 => Some (match sx_items arg with Some l => of_strs (display l) | None => bad end)
  | 402 => Some (req_read arg)
  | 403 => Some (match sx_items arg with Some l => of_list of_hev (events_of l) | None => bad end)
  | 404 => Some (match arg with
                 | SL [SI fmt; its] =>
                     match sx_items its with
                     | Some l => of_opt (fun t => SL (map of_xnode t)) (tree_of fmt l)
                     | None => bad end
                 | _ => bad end)
  | 405 => Some (match arg with
                 | SL [fx; SS s] => match sx_bool fx with Some f => SS (vtt_decode f s) | None => bad end
                 | _ => bad end)
  | 406 => Some (match arg with
                 | SL [fx; SS s] => match sx_bool fx with Some f => of_opt SS (text_node f s) | None => bad end
                 | _ => bad end)
  | 407 => Some (match arg with
                 | SL [fx; evs] =>
                     match sx_bool fx, sx_listof sx_hev evs with
                     | Some f, Some l => of_result SS (sami_stage1 f l)
                     | _, _ => bad end
                 | _ => bad end)
  | 408 => Some (match arg with
                 | SL [its; obs] =>
                     match sx_items its, sx_strs obs with
                     | Some l, Some o => of_bool (ok_lines_a (display l) o)
                     | _, _ => bad end
                 | _ => bad end)
  | 409 => Some (match arg with
                 | SL [fx; ls] => match sx_bool fx, sx_strs ls with
                                  | Some f, Some l => of_list of_nodes (vtt_parse f l)
                                  | _, _ => bad end
                 | _ => bad end)
  | 410 => Some (match arg with
                 | SL [hd; bs] => match sx_strs hd, sx_listof sx_block bs with
                                  | Some h, Some b => of_strs (vtt_document_lines h b)
                                  | _, _ => bad end
                 | _ => bad end)
  (* 412 (wave 7): DFXP end to end on strings. arg = list of lines, a line = SL [SS first; SL [SL [SS indent; SS word]; ...]]
     -> SL [rendered <p> content; shown lines; option (lines the model reads from the rendered string); all lines in the domain] *)
  | 412 => Some (match sx_listof sx_wline arg with
                 | Some ls => SL [SS (render_p ls); of_strs (map shown_line ls); of_opt of_strs (read_p (render_p ls));
                                  of_bool (forallb line_ok ls)]
                 | None => bad end)
  | 413 => Some (match arg with
                 | SL [a; o] => match sx_strs a, sx_strs o with
                                | Some a, Some o => of_bool (ok_lines_a a o)
                                | _, _ => bad end
                 | _ => bad end)
  | _ => None
  end.
