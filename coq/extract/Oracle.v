(* Single entry point of the extracted model: oracle : list Z -> list Z.
   Request = SL [SI code; arg]; response = an sx value; SL [SI (-1)] on a malformed request. *)
From Coq Require Import List ZArith QArith Bool.
From PV Require Import lib.Sx lib.Str lib.Result.
From PV Require Import model.Generated model.Detect model.Base spec.SpecDetect spec.SpecBase.
Import ListNotations.
Open Scope Z_scope.

Definition bad : sx := SL [SI (-1)].

Definition sx_q (x : sx) : option Q :=
  match x with
  | SL [SI n; SI d] => if 0 <? d then Some (n # Z.to_pos d) else None
  | _ => None
  end.
Definition of_q (q : Q) : sx := let r := Qred q in SL [SI (Qnum r); SI (Zpos (Qden r))].

Definition sx_cap (x : sx) : option caption :=
  match x with
  | SL [a; b; ns] =>
      match sx_q a, sx_q b, sx_listof sx_int ns with
      | Some s, Some e, Some l => Some (mkCap s e l)
      | _, _, _ => None
      end
  | _ => None
  end.
Definition of_cap (c : caption) : sx := SL [of_q (c_start c); of_q (c_end c); of_list SI (c_nodes c)].
Definition sx_langs := sx_listof (sx_listof sx_cap).
Definition of_langs := of_list (of_list of_cap).

Definition of_optz (o : option Z) : sx := of_opt SI o.

(* ---- C20 ------------------------------------------------------------------ *)
Definition req_c20_model (arg : sx) : sx :=
  match arg with
  | SS s => SL [of_list (fun r => of_result of_bool (detect_of r s)) documented_order;
                of_result of_optz (detect_format s)]
  | _ => bad
  end.

Definition req_c20_ok (arg : sx) : sx :=
  match arg with
  | SL [SI ne; ds; df] =>
      match sx_bool (SI ne), sx_listof (sx_result sx_bool) ds, sx_result (sx_opt sx_int) df with
      | Some ne, Some ds, Some df => of_bool (ok_detect ne ds df)
      | _, _, _ => bad
      end
  | _ => bad
  end.

(* ---- C19 ------------------------------------------------------------------ *)
Definition req_c19_adjust (arg : sx) : sx :=
  match arg with
  | SL [sk; off; ls] =>
      match sx_q sk, sx_q off, sx_langs ls with
      | Some sk, Some off, Some ls => of_langs (adjust sk off ls)
      | _, _, _ => bad
      end
  | _ => bad
  end.
Definition req_c19_ok_adjust (arg : sx) : sx :=
  match arg with
  | SL [sk; off; ls; obs] =>
      match sx_q sk, sx_q off, sx_langs ls, sx_langs obs with
      | Some sk, Some off, Some ls, Some obs =>
          SL [of_bool (ok_adjust sk off ls obs); of_bool (existsb (near_threshold sk off) ls)]
      | _, _, _, _ => bad
      end
  | _ => bad
  end.
Definition req_c19_merge (arg : sx) : sx :=
  match sx_langs arg with
  | Some ls => of_result of_langs (merge_concurrent ls)
  | None => bad
  end.
Definition req_c19_ok_merge (arg : sx) : sx :=
  match arg with
  | SL [ls; o1; o2] =>
      match sx_langs ls, sx_result sx_langs o1, sx_result sx_langs o2 with
      | Some ls, Some o1, Some o2 => of_bool (ok_merge ls o1 o2)
      | _, _, _ => bad
      end
  | _ => bad
  end.

Definition dispatch (code : Z) (arg : sx) : sx :=
  match code with
  | 1900 => req_c19_adjust arg
  | 1901 => req_c19_ok_adjust arg
  | 1902 => req_c19_merge arg
  | 1903 => req_c19_ok_merge arg
  | 2000 => req_c20_model arg
  | 2001 => req_c20_ok arg
  | _ => bad
  end.

Definition oracle (inp : list Z) : list Z :=
  match decode inp with
  | Some (SL [SI code; arg]) => enc (dispatch code arg)
  | _ => enc bad
  end.
