(* Wire <-> model values for the C09 / C10 requests (shared by OrC09.v and OrC10.v). *)
From Coq Require Import List ZArith Bool.
From PV Require Import lib.Sx lib.Str lib.Result model.Store model.Iso spec.SpecIso extract.OrCommon.
Import ListNotations.
Open Scope Z_scope.

(* tree:  int -> SI | str -> SS | None -> SL [] | node -> SL [SI k; SL [SL [key; val]; ..]] | cut -> SL [SI (-1)] *)
Fixpoint sx_tree (x : sx) : option tree :=
  match x with
  | SI z => Some (TInt z)
  | SS s => Some (TStr s)
  | SL [] => Some TNone
  | SL [SI _] => Some TCut
  | SL [SI k; SL cells] =>
      match (fix go (l : list sx) : option (list (tree * tree)) :=
               match l with
               | [] => Some []
               | SL [a; b] :: r =>
                   match sx_tree a, sx_tree b, go r with
                   | Some a', Some b', Some r' => Some ((a', b') :: r')
                   | _, _, _ => None
                   end
               | _ => None
               end) cells with
      | Some its => Some (TNode k its)
      | None => None
      end
  | _ => None
  end.

Fixpoint of_tree (t : tree) : sx :=
  match t with
  | TInt z => SI z
  | TStr s => SS s
  | TNone => SL []
  | TCut => SL [SI (-1)]
  | TNode k its => SL [SI k; SL (map (fun kv => SL [of_tree (fst kv); of_tree (snd kv)]) its)]
  end.

Definition sx_cfg (x : sx) : option cfg :=
  match x with
  | SL [a; b; c] =>
      match sx_bool a, sx_bool b, sx_bool c with
      | Some a, Some b, Some c => Some (mkCfg a b c)
      | _, _, _ => None
      end
  | _ => None
  end.

Definition sx_wopts (x : sx) : option wopts :=
  match x with
  | SL [r; f; d; lang; pos; il] =>
      match sx_bool r, sx_bool f, sx_bool d, sx_tree lang, sx_opt sx_int pos, sx_bool il with
      | Some r, Some f, Some d, Some lang, Some pos, Some il => Some (mkWopts r f d lang pos il)
      | _, _, _, _, _, _ => None
      end
  | _ => None
  end.

Definition sx_nat (x : sx) : option nat :=
  match x with SI z => if z <? 0 then None else Some (Z.to_nat z) | _ => None end.

Definition sx_edit (x : sx) : option edit :=
  match x with
  | SL [SI 0; sel; rules] =>
      match sx_tree sel, sx_tree rules with Some a, Some b => Some (EAddStyle a b) | _, _ => None end
  | SL [SI 1; sel; k; v] =>
      match sx_tree sel, sx_tree k, sx_tree v with Some a, Some b, Some c => Some (EStyleRule a b c) | _, _, _ => None end
  | SL [SI 2; li; ci; SI f; v] =>
      match sx_nat li, sx_nat ci, sx_tree v with Some a, Some b, Some c => Some (ECapTime a b f c) | _, _, _ => None end
  | SL [SI 3; li; ci; node] =>
      match sx_nat li, sx_nat ci, sx_tree node with Some a, Some b, Some c => Some (EAppendNode a b c) | _, _, _ => None end
  | SL [SI 4; li; ci; k; v] =>
      match sx_nat li, sx_nat ci, sx_tree k, sx_tree v with
      | Some a, Some b, Some c, Some d => Some (ECapStyle a b c d) | _, _, _, _ => None end
  | SL [SI 5; li; ci; lay] =>
      match sx_nat li, sx_nat ci, sx_tree lay with Some a, Some b, Some c => Some (ECapLayout a b c) | _, _, _ => None end
  | SL [SI 6; li; ci; ni; SI f; v] =>
      match sx_nat li, sx_nat ci, sx_nat ni, sx_tree v with
      | Some a, Some b, Some c, Some d => Some (ENodeField a b c f d) | _, _, _, _ => None end
  | SL [SI 7; li; ci] =>
      match sx_nat li, sx_nat ci with Some a, Some b => Some (EDelCap a b) | _, _ => None end
  | SL [SI 8; li; ci; ni; k; v] =>
      match sx_nat li, sx_nat ci, sx_nat ni, sx_tree k, sx_tree v with
      | Some a, Some b, Some c, Some d, Some e => Some (ENodeDict a b c d e) | _, _, _, _, _ => None end
  | _ => None
  end.

Definition sx_op (x : sx) : option op :=
  match x with
  | SL [SI 0; t] => match sx_tree t with Some t => Some (OBuild t) | None => None end
  | SL [SI 1; rid; SI rk; t] =>
      match sx_nat rid, sx_tree t with Some r, Some t => Some (ORead r rk t) | _, _ => None end
  | SL [SI 2; wid; SI k; wo; si] =>
      match sx_nat wid, sx_wopts wo, sx_nat si with
      | Some w, Some wo, Some si => Some (OWrite w k wo si) | _, _, _ => None end
  | SL [SI 3; si; e] =>
      match sx_nat si, sx_edit e with Some si, Some e => Some (OEdit si e) | _, _ => None end
  | _ => None
  end.

Definition of_nat (n : nat) : sx := SI (Z.of_nat n).

Definition of_mobs (m : mobs) : sx :=
  SL [SI (mo_err m); of_list SI (mo_tokens m); of_bool (mo_open m);
      of_list (fun p => SL [SI (fst p); SI (snd p)]) (mo_fp m); SI (mo_copies m);
      of_list of_nat (mo_changed_below m);
      of_list (fun p => SL [of_nat (fst p); of_list SI (snd p)]) (mo_share m);
      of_list SI (mo_glob m); of_bool (mo_rinst m)].

Definition req_run (arg : sx) : sx :=
  match arg with
  | SL [c; ops] =>
      match sx_cfg c, sx_listof sx_op ops with
      | Some c, Some ops =>
          of_list (fun r => SL [of_mobs (fst r); of_list of_tree (snd r)]) (run c world0 ops)
      | _, _ => bad
      end
  | _ => bad
  end.

Definition sx_iobs (x : sx) : option (iobs Z) :=
  match x with
  | SL [SI k; SI s; SI key; SI out; SI pr; ds] =>
      match sx_listof sx_int ds with
      | Some ds => Some (mkIobs k s key out pr ds)
      | None => None
      end
  | _ => None
  end.

Definition of_fail (l : list (Z * Z)) : sx := of_list (fun p => SL [SI (fst p); SI (snd p)]) l.
