(* Glue only: one request per line (space-separated decimal integers) -> oracle -> one line. *)
open Oracle

let rec pos_of_int n =
  if n = 1 then XH
  else if n land 1 = 0 then XO (pos_of_int (n lsr 1))
  else XI (pos_of_int (n lsr 1))

let z_of_int n =
  if n = 0 then Z0 else if n > 0 then Zpos (pos_of_int n) else Zneg (pos_of_int (- n))

let rec pos_bits = function XH -> 1 | XO q | XI q -> 1 + pos_bits q
let rec int_of_pos = function XH -> 1 | XO q -> 2 * int_of_pos q | XI q -> 2 * int_of_pos q + 1

let chunk = 1_000_000_000_000_000   (* 10^15 *)
let zchunk = z_of_int chunk

(* decimal string -> Z, arbitrary size *)
let rec z_of_digits s =
  let n = Stdlib.String.length s in
  if n <= 15 then z_of_int (int_of_string s)
  else
    let hd = Stdlib.String.sub s 0 (n - 15) and tl = Stdlib.String.sub s (n - 15) 15 in
    Z.add (Z.mul (z_of_digits hd) zchunk) (z_of_int (int_of_string tl))

let z_of_string s =
  if Stdlib.String.length s > 0 && s.[0] = '-' then
    Z.opp (z_of_digits (Stdlib.String.sub s 1 (Stdlib.String.length s - 1)))
  else z_of_digits s

let rec string_of_pos_z x =
  match x with
  | Z0 -> "0"
  | Zneg _ -> assert false
  | Zpos p ->
    if pos_bits p <= 60 then string_of_int (int_of_pos p)
    else
      let (q, r) = Z.div_eucl x zchunk in
      let rs = (match r with Z0 -> 0 | Zpos p -> int_of_pos p | Zneg _ -> assert false) in
      string_of_pos_z q ^ Printf.sprintf "%015d" rs

let string_of_z x =
  match x with
  | Zneg p -> "-" ^ string_of_pos_z (Zpos p)
  | _ -> string_of_pos_z x

let () =
  try
    while true do
      let line = input_line stdin in
      let toks = Stdlib.List.filter (fun t -> t <> "") (Stdlib.String.split_on_char ' ' line) in
      let inp = Stdlib.List.map z_of_string toks in
      let out = oracle inp in
      print_string (Stdlib.String.concat " " (Stdlib.List.map string_of_z out));
      print_newline ()
    done
  with End_of_file -> ()
