(* geometry requests (C18: 1800.., C13: 1300..). *)
From Coq Require Import List ZArith QArith Bool.
From PV Require Import lib.Sx lib.Str lib.Result.
From PV Require Import model.Geometry model.GeomStore spec.SpecGeom extract.OrCommon.
Import ListNotations.
Open Scope Z_scope.

(* ---- geometry (C18, C13) ---------------------------------------------------- *)
Definition unit_code (u : unit_) : Z := match u with PX => 0 | EM => 1 | PCT => 2 | CELL => 3 | PT => 4 end.
Definition sx_unit (x : sx) : option unit_ :=
  match x with SI 0 => Some PX | SI 1 => Some EM | SI 2 => Some PCT | SI 3 => Some CELL | SI 4 => Some PT | _ => None end.
Definition sx_size (x : sx) : option size :=
  match x with
  | SL [q; u] => match sx_q q, sx_unit u with Some q, Some u => Some (mkSize q u) | _, _ => None end
  | _ => None
  end.
Definition of_size (a : size) : sx := SL [of_q (s_val a); SI (unit_code (s_unit a))].
Definition sx_point (x : sx) : option point :=
  match x with SL [a; b] => match sx_size a, sx_size b with Some a, Some b => Some (mkPoint a b) | _, _ => None end
  | _ => None end.
Definition sx_stretch (x : sx) : option stretch :=
  match x with SL [a; b] => match sx_size a, sx_size b with Some a, Some b => Some (mkStretch a b) | _, _ => None end
  | _ => None end.
Definition sx_padding (x : sx) : option padding :=
  match x with
  | SL [a; b; c; d] => match sx_size a, sx_size b, sx_size c, sx_size d with
                       | Some a, Some b, Some c, Some d => Some (mkPadding a b c d) | _, _, _, _ => None end
  | _ => None end.
Definition sx_halign (x : sx) : option halign :=
  match x with SI 0 => Some HLeft | SI 1 => Some HCenter | SI 2 => Some HRight | SI 3 => Some HStart | SI 4 => Some HEnd
  | _ => None end.
Definition sx_valign (x : sx) : option valign :=
  match x with SI 0 => Some VTop | SI 1 => Some VCenter | SI 2 => Some VBottom | _ => None end.
Definition halign_code (h : halign) : Z := match h with HLeft => 0 | HCenter => 1 | HRight => 2 | HStart => 3 | HEnd => 4 end.
Definition valign_code (v : valign) : Z := match v with VTop => 0 | VCenter => 1 | VBottom => 2 end.
Definition sx_alignment (x : sx) : option alignment :=
  match x with
  | SL [a; b] => match sx_opt sx_halign a, sx_opt sx_valign b with
                 | Some a, Some b => Some (mkAlign a b) | _, _ => None end
  | _ => None end.
Definition sx_layout (x : sx) : option layout :=
  match x with
  | SL [o; e; p; a; w] =>
      match sx_opt sx_point o, sx_opt sx_stretch e, sx_opt sx_padding p, sx_opt sx_alignment a, sx_opt sx_str w with
      | Some o, Some e, Some p, Some a, Some w => Some (mkLayout o e p a w)
      | _, _, _, _, _ => None
      end
  | _ => None end.
Definition of_point (p : point) : sx := SL [of_size (p_x p); of_size (p_y p)].
Definition of_stretch (p : stretch) : sx := SL [of_size (st_h p); of_size (st_v p)].
Definition of_padding (p : padding) : sx :=
  SL [of_size (pd_before p); of_size (pd_after p); of_size (pd_start p); of_size (pd_end p)].
Definition of_alignment (a : alignment) : sx :=
  SL [of_opt (fun h => SI (halign_code h)) (al_h a); of_opt (fun v => SI (valign_code v)) (al_v a)].
Definition of_layout (l : layout) : sx :=
  SL [of_opt of_point (l_origin l); of_opt of_stretch (l_extent l); of_opt of_padding (l_padding l);
      of_opt of_alignment (l_alignment l); of_opt SS (l_webvtt l)].
Definition sx_vu (x : sx) : option (Q * unit_) :=
  match x with SL [q; u] => match sx_q q, sx_unit u with Some q, Some u => Some (q, u) | _, _ => None end | _ => None end.

Definition sx_gval (x : sx) : option gval :=
  match x with
  | SL [SI 0; _] => Some GOther
  | SL [SI 1; a] => option_map GSize (sx_size a)
  | SL [SI 2; a] => option_map GPoint (sx_point a)
  | SL [SI 3; a] => option_map GStretch (sx_stretch a)
  | SL [SI 4; a] => option_map GPadding (sx_padding a)
  | SL [SI 5; a] => option_map GAlign (sx_alignment a)
  | SL [SI 6; a] => option_map GLayout (sx_layout a)
  | _ => None
  end.
Definition sx_size2 (x : sx) : option (size * size) :=
  match x with SL [a; b] => match sx_size a, sx_size b with Some a, Some b => Some (a, b) | _, _ => None end
  | _ => None end.

Definition req_geom (code : Z) (arg : sx) : sx :=
  match code, arg with
  | 1808, SL [a; b] =>
      match sx_gval a, sx_gval b with Some a, Some b => of_bool (gval_eqb a b) | _, _ => bad end
  | 1809, SL [a; b; e; n; h] =>
      match sx_gval a, sx_gval b, sx_bool e, sx_bool n, sx_bool h with
      | Some a, Some b, Some e, Some n, Some h => of_bool (ok_eq_g a b e n h)
      | _, _, _, _, _ => bad end
  | 1812, SS s => of_bool (padding_judged s)
  | 1813, SL [a; SS printed] =>
      match sx_size a with Some a => of_bool (ok_print_stmt (s_val a) (s_unit a) printed) | None => bad end
  | 1814, SS s => of_bool (two_judged s)
  | 1810, SS s => of_result (fun p => SL [of_size (fst p); of_size (snd p)]) (two_sizes s)
  | 1811, SL [SS s; obs] =>
      match sx_result sx_size2 obs with Some o => of_bool (ok_two s o) | None => bad end
  | 1800, SS s => of_result of_size (size_from_string s)
  | 1801, SL [SS s; obs] =>
      match sx_result sx_vu obs with Some o => of_bool (ok_parse s o) | None => bad end
  | 1802, a => match sx_size a with Some a => SS (size_str a) | None => bad end
  | 1803, SL [a; SS printed] =>
      match sx_size a with Some a => of_bool (ok_print (s_val a) (s_unit a) printed) | None => bad end
  | 1804, SL [a; b] =>
      match sx_layout a, sx_layout b with Some a, Some b => of_bool (layout_eqb a b) | _, _ => bad end
  | 1805, SL [a; b; e; n; h] =>
      match sx_layout a, sx_layout b, sx_bool e, sx_bool n, sx_bool h with
      | Some a, Some b, Some e, Some n, Some h => of_bool (ok_eq a b e n h)
      | _, _, _, _, _ => bad end
  | 1806, SS s => of_result of_padding (padding_from_attr s)
  | 1807, SL [SS s; obs] =>
      match sx_result sx_padding obs with Some o => of_bool (ok_padding s o) | None => bad end
  | 1815, SL [SI op; w; h; l] =>
      (* heap model: decoded result and sharing profile of Layout.as_percentage_of (op 0) / fit_to_screen (op 1) *)
      match sx_opt sx_q w, sx_opt sx_q h, sx_layout l with
      | Some w, Some h, Some l =>
          of_result (fun r => SL [of_opt of_layout (fst r); of_list SI (snd r)]) (layout_op_profile op w h l)
      | _, _, _ => bad end
  | 1300, SL [a; w; h] =>
      match sx_size a, sx_opt sx_q w, sx_opt sx_q h with
      | Some a, Some w, Some h => of_result of_size (size_as_pct a w h) | _, _, _ => bad end
  | 1301, SL [a; hz; d; obs] =>
      match sx_size a, sx_bool hz, sx_opt sx_q d, sx_result sx_size obs with
      | Some a, Some hz, Some d, Some o => of_bool (ok_size_pct a hz d o) | _, _, _, _ => bad end
  | 1302, SL [r; f; w; h; l] =>
      match sx_bool r, sx_bool f, sx_opt sx_q w, sx_opt sx_q h, sx_layout l with
      | Some r, Some f, Some w, Some h, Some l => of_result of_layout (relativize_and_fit r f w h l)
      | _, _, _, _, _ => bad end
  | 1303, SL [l; obs] =>
      match sx_layout l, sx_result sx_layout obs with
      | Some l, Some o => of_bool (ok_fit l o) | _, _ => bad end
  | 1304, SL [l; w; h; obs] =>
      match sx_layout l, sx_opt sx_q w, sx_opt sx_q h, sx_result sx_layout obs with
      | Some l, Some w, Some h, Some o => of_bool (ok_layout_pct l w h o) | _, _, _, _ => bad end
  | _, _ => bad
  end.


Definition dispatch (code : Z) (arg : sx) : option sx :=
  match code with
  | 1800 | 1801 | 1802 | 1803 | 1804 | 1805 | 1806 | 1807 | 1808 | 1809 | 1810 | 1811 | 1812 | 1813 | 1814 | 1815
  | 1300 | 1301 | 1302 | 1303 | 1304 => Some (req_geom code arg)
  | _ => None
  end.
