(* C10 requests: 1000 run a history in the store model, 1001 property oracle on the implementation's observations. *)
From Coq Require Import List ZArith Bool.
From PV Require Import lib.Sx lib.Result model.Store model.Iso spec.SpecIso extract.OrCommon extract.IsoWire.
Import ListNotations.
Open Scope Z_scope.

Definition req_ok_c10 (arg : sx) : sx :=
  match sx_listof sx_iobs arg with
  | Some l => of_fail (ok_c10 l)
  | None => bad
  end.

Definition dispatch (code : Z) (arg : sx) : option sx :=
  match code with
  | 1000 => Some (req_run arg)
  | 1001 => Some (req_ok_c10 arg)
  | _ => None
  end.
