(* C10 requests: 1000 run a history in the store model, 1001 property oracle on the implementation's observations,
   1002 one SCCReader OBJECT reads a sequence of documents (model/SccReuse.v: reader_history over the decoder model, the
        text goes through the Coq tokeniser): [reset field codes; [[offset_us; text] ..]] -> the result of every read. *)
From Coq Require Import List ZArith QArith Bool.
From PV Require Import lib.Sx lib.Result model.Store model.Iso spec.SpecIso extract.OrCommon extract.IsoWire.
From PV Require Import model.SccDecoder model.SccTokenise model.SccReuse extract.OrC06.
Import ListNotations.
Open Scope Z_scope.

Definition req_ok_c10 (arg : sx) : sx :=
  match sx_listof sx_iobs arg with
  | Some l => of_fail (ok_c10 l)
  | None => bad
  end.

Definition sx_doc (x : sx) : option doc :=
  match x with
  | SL [off; SS text] => match sx_q off with Some q => Some (q, tokenise text) | None => None end
  | _ => None
  end.

Definition req_reader_history (arg : sx) : sx :=
  match arg with
  | SL [fs; docs] =>
      match sx_listof sx_int fs, sx_listof sx_doc docs with
      | Some fs, Some docs =>
          let fl := flat_map (fun z => match fld_of_code z with Some f => [f] | None => [] end) fs in
          SL [of_bool (covers fl); of_list of_read_result (reader_history fl new_reader docs)]
      | _, _ => bad
      end
  | _ => bad
  end.

Definition dispatch (code : Z) (arg : sx) : option sx :=
  match code with
  | 1000 => Some (req_run arg)
  | 1001 => Some (req_ok_c10 arg)
  | 1002 => Some (req_reader_history arg)
  | _ => None
  end.
