(* C10 requests: 1000 run a history in the store model, 1001 property oracle on the implementation's observations,
   1002 one SCCReader OBJECT reads a sequence of documents (model/SccReuse.v: reader_history over the decoder model, the
        text goes through the Coq tokeniser): [reset field codes; [[offset_us; text] ..]] -> the result of every read.
   1003 one SAMI / DFXP (machine 1), MicroDVD (2), WebVTT (3) reader OBJECT reads a sequence of abstract documents
        (model/ReaderReuse.v): [machine; reset field codes; options; documents] -> [covers; the result of every read]. *)
From Coq Require Import List ZArith QArith Bool.
From PV Require Import lib.Sx lib.Result model.Store model.Iso spec.SpecIso extract.OrCommon extract.IsoWire.
From PV Require Import model.SccDecoder model.SccTokenise model.SccReuse extract.OrC06 model.ReaderReuse.
Import ListNotations.
Open Scope Z_scope.

Definition req_ok_c10 (arg : sx) : sx :=
  match sx_listof sx_iobs arg with
  | Some l => of_fail (ok_c10 l)
  | None => bad
  end.

Definition sx_doc (x : sx) : option doc :=
  match x with
  | SL [off; SS text] => match sx_q off with Some q => Some (q, tokenise text) | None => None end
  | _ => None
  end.

Definition req_reader_history (arg : sx) : sx :=
  match arg with
  | SL [fs; docs] =>
      match sx_listof sx_int fs, sx_listof sx_doc docs with
      | Some fs, Some docs =>
          let fl := flat_map (fun z => match fld_of_code z with Some f => [f] | None => [] end) fs in
          SL [of_bool (covers fl); of_list of_read_result (reader_history fl new_reader docs)]
      | _, _ => bad
      end
  | _ => bad
  end.

Definition sx_pitem (x : sx) : option pitem :=
  match x with
  | SL [SI 0; SI z] => Some (IText z)
  | SL [SI 1] => Some IBreak
  | SL [SI 2; b; SI z] => match sx_bool b with Some b => Some (IStyle b z) | None => None end
  | SL [SI 3; SI a] => Some (IAlign a)
  | SL [SI 4] => Some IFail
  | _ => None
  end.
Definition of_pnode (n : pnode) : sx :=
  match n with NText z => SL [SI 0; SI z] | NBreak => SL [SI 1] | NStyle b z => SL [SI 2; of_bool b; SI z] end.
Definition of_pcap (c : pcap) : sx := SL [of_list of_pnode (pc_nodes c); of_opt SI (pc_align c)].
Definition sx_mline (x : sx) : option mline :=
  match x with
  | SL [SI 0; SI n; SI d] => Some (MHeader n d)
  | SL [SI 1; SI a; SI b] => Some (MCue a b)
  | SL [SI 2] => Some MBad
  | _ => None
  end.
Definition sx_zz (x : sx) : option (Z * Z) := match x with SL [SI a; SI b] => Some (a, b) | _ => None end.
Definition of_zz (p : Z * Z) : sx := SL [SI (fst p); SI (snd p)].
Definition pick {A} (codes : list Z) (all : list (Z * A)) : list A :=
  flat_map (fun z => flat_map (fun p => if fst p =? z then [snd p] else []) all) codes.

Definition req_obj_history (arg : sx) : sx :=
  match arg with
  | SL [SI 1; fs; _; docs] =>
      match sx_listof sx_int fs, sx_listof (sx_listof (sx_listof sx_pitem)) docs with
      | Some fs, Some docs =>
          let fl := pick fs [(0, PLine); (1, PFaPre); (2, PFaPost)] in
          SL [of_bool (pcovers fl); of_list (of_result (of_list of_pcap)) (par_history fl pstate0 docs)]
      | _, _ => bad
      end
  | SL [SI 2; fs; _; docs] =>
      match sx_listof sx_int fs, sx_listof (sx_listof sx_mline) docs with
      | Some fs, Some docs =>
          let fl := pick fs [(0, MFps)] in
          SL [of_bool (mcovers fl); of_list (of_result (of_list of_zz)) (mdvd_history fl mstate0 docs)]
      | _, _ => bad
      end
  | SL [SI 3; fs; SL [st; SI shift]; docs] =>
      match sx_listof sx_int fs, sx_bool st, sx_listof (sx_listof sx_zz) docs with
      | Some fs, Some st, Some docs =>
          let fl := pick fs [(0, VPrev)] in
          SL [of_bool (vcovers fl); of_list (of_result (of_list of_zz)) (vtt_history (mkV st shift) fl vstate0 docs)]
      | _, _, _ => bad
      end
  | _ => bad
  end.

Definition dispatch (code : Z) (arg : sx) : option sx :=
  match code with
  | 1000 => Some (req_run arg)
  | 1001 => Some (req_ok_c10 arg)
  | 1002 => Some (req_reader_history arg)
  | 1003 => Some (req_obj_history arg)
  | _ => None
  end.
