(* wave 7 requests of C12 / C13 / C18:
   1211  the DFXP document as written (model/DfxpClean.v: region table, body tree with region attributes, cleanup_regions)
   1213  the cue settings WebVTTReader keeps from a timing line (model/VttSettings.v) and the line the writer prints for them
   1214  tts:textAlign / tts:displayAlign at string level (model/DfxpAlign.v): what the reader makes of two attribute values
   1215  the names the writer prints for the alignment members, and the two strings written for an alignment
   1216  tts:textAlign lookup over an element, its parents and the region (model/DfxpStyleAlign.v): the element's alignment
   1320  DFXPWriter with inline positioning: the layout each div / p / span carries inline (dfxp_choice over the
         transformed set)
   1321  the TEXT of the cue settings WebVTTWriter._convert_positioning returns (model/VttText.v)
   1322  the margins SAMIWriter prints (model/Pos13Doc.v): set-level block, then one block per language
   1820  to_xml_attribute of Point / Stretch / Padding and from_xml_attribute of the result *)
From Coq Require Import List ZArith QArith Bool.
From PV Require Import lib.Sx lib.Str lib.Result.
From PV Require Import model.Geometry model.Positioning model.DfxpTree model.DfxpClean model.TimeRead model.VttSettings model.DfxpAlign model.DfxpStyleAlign model.VttText model.Pos13Doc spec.SpecGeom spec.SpecPos spec.SpecPos7.
From PV Require Import extract.OrCommon extract.OrGeom extract.OrPos.
Import ListNotations.
Open Scope Z_scope.

Definition of_rid (r : region_id) : sx := match r with RDefault => SI (-1) | RId n => SI n end.
Definition of_attrs (a : region_attrs) : sx :=
  SL [of_opt SS (ra_origin a); of_opt SS (ra_extent a); of_opt SS (ra_padding a);
      of_opt (fun h => SI (halign_code h)) (ra_text_align a); of_opt (fun v => SI (valign_code v)) (ra_display_align a)].

Fixpoint of_xitem (it : xitem) : sx :=
  match it with
  | XText w => SL [SI 0; SI w]
  | XBr => SL [SI 1]
  | XSpan r body => SL [SI 2; of_opt of_rid r; SL (map of_xitem body)]
  end.
Definition of_xp (p : xp) : sx := SL [of_opt of_rid (xp_region p); of_list of_xitem (xp_items p)].
Definition of_xdiv (d : xdiv) : sx := SL [of_opt of_rid (xd_region d); of_list of_xp (xd_ps d)].
Definition of_xdoc (d : xdoc) : sx :=
  SL [of_list (fun kv => SL [of_rid (fst kv); of_attrs (snd kv)]) (x_regions d); of_list of_xdiv (x_divs d)].

Definition sx_src (x : sx) : option asource :=
  match x with
  | SL [o; st] => match sx_opt sx_str o, sx_listof (sx_opt sx_str) st with
                  | Some o, Some st => Some (mkSrc o st) | _, _ => None end
  | _ => None end.

Definition req7 (code : Z) (arg : sx) : sx :=
  match code, arg with
  | 1211, SL [g; s] =>
      match sx_opt sx_layout g, sx_listof sx_dlang s with
      | Some g, Some s => SL [of_xdoc (write_doc_clean g s); SI (Z.of_nat (length (x_regions (write_doc g s))))]
      | _, _ => bad end
  | 1213, SS line =>
      match vtt_cue_settings line with
      | None => SL [SI 0]
      | Some None => SL [SI 1]
      | Some (Some st) =>
          (* and the model's re-reading of the line the writer prints for these settings *)
          SL [SI 2; SS st; match vtt_cue_settings (vtt_timing_text (lit "00:01.000") (lit "00:02.000") (VRaw st)) with
                           | Some (Some st') => SS st' | _ => SI 0 end]
      end
  | 1214, SL [ta; da] =>
      match sx_opt sx_str ta, sx_opt sx_str da with
      | Some ta, Some da => of_opt of_alignment (read_alignment ta da) | _, _ => bad end
  | 1215, a =>
      match sx_opt sx_alignment a with
      | Some a => SL [of_list SS (map halign_name [HLeft; HCenter; HRight; HStart; HEnd]);
                      of_list SS (map valign_name [VTop; VCenter; VBottom]);
                      of_opt SS (fst (written_alignment a)); of_opt SS (snd (written_alignment a))]
      | None => bad end
  | 1216, SL [e; ps; rt; rd] =>
      match sx_opt sx_src e, sx_listof sx_src ps, sx_src rt, sx_src rd with
      | Some e, Some ps, Some rt, Some rd => of_opt of_alignment (element_alignment e ps rt rd)
      | _, _, _, _ => bad end
  | 1320, SL [c; s] =>
      match sx_cfg c, sx_nset s with
      | Some c, Some s => of_result (fun s' => of_list (of_opt of_layout) (inline_layouts s')) (dfxp_transform_inline c s)
      | _, _ => bad end
  | 1321, SL [c; l] =>
      match sx_cfg c, sx_opt sx_layout l with
      | Some c, Some l => of_result (fun o => SS (vtt_settings_text o)) (vtt_convert_positioning c l) | _, _ => bad end
  | 1322, SL [c; s] =>
      match sx_cfg c, sx_nset s with
      | Some c, Some s =>
          of_result (fun s' => of_list (of_list (fun kt => SL [SS (fst kt); SS (snd kt)])) (sami_doc_margins s')) (sami_transform c s)
      | _, _ => bad end
  | 1820, SL [SI k; v] =>
      match k with
      | 0 => match sx_point v with
             | Some p => SL [SS (point_attr p); of_result of_point (point_of_attr (point_attr p))] | None => bad end
      | 1 => match sx_stretch v with
             | Some p => SL [SS (stretch_attr p); of_result of_stretch (stretch_of_attr (stretch_attr p))] | None => bad end
      | _ => match sx_padding v with
             | Some p => SL [SS (padding_attr p); of_result of_padding (padding_from_attr (padding_attr p))] | None => bad end
      end
  | _, _ => bad
  end.

Definition dispatch (code : Z) (arg : sx) : option sx :=
  match code with
  | 1211 | 1213 | 1214 | 1215 | 1216 | 1320 | 1321 | 1322 | 1820 => Some (req7 code arg)
  | _ => None
  end.
