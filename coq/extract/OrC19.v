(* C19 requests: 1900..1907.
   1900 adjust (value model)            [skew; off; langs]            -> langs
   1901 ok_adjust                       [skew; off; langs; obs]       -> [ok; some caption optional?]
   1902 merge_concurrent (value model)  langs                         -> result langs
   1903 ok_merge                        [langs; obs1; obs2]           -> ok
   1904 adjust_objs (object model)      [skew; off; heap; refs]       -> langs      (bad if a reference dangles)
   1905 adjust_objs_prefix (pinned loop, applies the map once per listing) same args -> langs
   1906 composition law                 [sk1; off1; sk2; off2; langs] -> [adjust sk2 off2 (adjust sk1 off1 langs);
                                         adjust (sk1*sk2) (off1*sk2+off2) (survivors of the first step)]
   1907 merge laws                      [sk; off; langs] -> [[merge_accepts lang ...]; adjust sk off drops nothing?;
                                         result (adjust sk off (merge_concurrent langs))]  *)
From Coq Require Import List ZArith QArith Bool.
From PV Require Import lib.Sx lib.Str lib.Result.
From PV Require Import model.Base model.BaseObj spec.SpecBase extract.OrCommon.
Import ListNotations.
Open Scope Z_scope.

Definition req_c19_adjust (arg : sx) : sx :=
  match arg with
  | SL [sk; off; ls] =>
      match sx_q sk, sx_q off, sx_langs ls with
      | Some sk, Some off, Some ls => of_langs (adjust sk off ls)
      | _, _, _ => bad
      end
  | _ => bad
  end.
Definition req_c19_ok_adjust (arg : sx) : sx :=
  match arg with
  | SL [sk; off; ls; obs] =>
      match sx_q sk, sx_q off, sx_langs ls, sx_langs obs with
      | Some sk, Some off, Some ls, Some obs =>
          SL [of_bool (ok_adjust sk off ls obs); of_bool (existsb (near_threshold sk off) ls)]
      | _, _, _, _ => bad
      end
  | _ => bad
  end.
Definition req_c19_merge (arg : sx) : sx :=
  match sx_langs arg with
  | Some ls => of_result of_langs (merge_concurrent ls)
  | None => bad
  end.
Definition req_c19_ok_merge (arg : sx) : sx :=
  match arg with
  | SL [ls; o1; o2] =>
      match sx_langs ls, sx_result sx_langs o1, sx_result sx_langs o2 with
      | Some ls, Some o1, Some o2 => of_bool (ok_merge ls o1 o2)
      | _, _, _ => bad
      end
  | _ => bad
  end.

Definition sx_nat (x : sx) : option nat :=
  match x with SI z => if 0 <=? z then Some (Z.to_nat z) else None | _ => None end.
Definition sx_refs := sx_listof (sx_listof sx_nat).

Definition req_c19_adjust_objs (once : bool) (arg : sx) : sx :=
  match arg with
  | SL [sk; off; hp; rs] =>
      match sx_q sk, sx_q off, sx_listof sx_cap hp, sx_refs rs with
      | Some sk, Some off, Some h, Some refs =>
          if refs_ok h refs then of_langs (adjust_objs_gen once sk off h refs) else bad
      | _, _, _, _ => bad
      end
  | _ => bad
  end.

Definition req_c19_compose (arg : sx) : sx :=
  match arg with
  | SL [sk1; off1; sk2; off2; ls] =>
      match sx_q sk1, sx_q off1, sx_q sk2, sx_q off2, sx_langs ls with
      | Some sk1, Some off1, Some sk2, Some off2, Some ls =>
          SL [of_langs (adjust sk2 off2 (adjust sk1 off1 ls));
              of_langs (adjust (sk1 * sk2) (off1 * sk2 + off2)
                               (map (filter (survives sk1 off1)) ls))]
      | _, _, _, _, _ => bad
      end
  | _ => bad
  end.

Definition req_c19_laws (arg : sx) : sx :=
  match arg with
  | SL [sk; off; ls] =>
      match sx_q sk, sx_q off, sx_langs ls with
      | Some sk, Some off, Some ls =>
          SL [of_list of_bool (map merge_accepts ls);
              of_bool (forallb (forallb (survives sk off)) ls);
              of_result of_langs (do m <- merge_concurrent ls; Ok (adjust sk off m))]
      | _, _, _ => bad
      end
  | _ => bad
  end.

Definition dispatch (code : Z) (arg : sx) : option sx :=
  match code with
  | 1900 => Some (req_c19_adjust arg)
  | 1901 => Some (req_c19_ok_adjust arg)
  | 1902 => Some (req_c19_merge arg)
  | 1903 => Some (req_c19_ok_merge arg)
  | 1904 => Some (req_c19_adjust_objs true arg)
  | 1905 => Some (req_c19_adjust_objs false arg)
  | 1906 => Some (req_c19_compose arg)
  | 1907 => Some (req_c19_laws arg)
  | _ => None
  end.
