(* C19 requests: 1900..1903. *)
From Coq Require Import List ZArith QArith Bool.
From PV Require Import lib.Sx lib.Str lib.Result.
From PV Require Import model.Base spec.SpecBase extract.OrCommon.
Import ListNotations.
Open Scope Z_scope.

(* ---- C19 ------------------------------------------------------------------ *)
Definition req_c19_adjust (arg : sx) : sx :=
  match arg with
  | SL [sk; off; ls] =>
      match sx_q sk, sx_q off, sx_langs ls with
      | Some sk, Some off, Some ls => of_langs (adjust sk off ls)
      | _, _, _ => bad
      end
  | _ => bad
  end.
Definition req_c19_ok_adjust (arg : sx) : sx :=
  match arg with
  | SL [sk; off; ls; obs] =>
      match sx_q sk, sx_q off, sx_langs ls, sx_langs obs with
      | Some sk, Some off, Some ls, Some obs =>
          SL [of_bool (ok_adjust sk off ls obs); of_bool (existsb (near_threshold sk off) ls)]
      | _, _, _, _ => bad
      end
  | _ => bad
  end.
Definition req_c19_merge (arg : sx) : sx :=
  match sx_langs arg with
  | Some ls => of_result of_langs (merge_concurrent ls)
  | None => bad
  end.
Definition req_c19_ok_merge (arg : sx) : sx :=
  match arg with
  | SL [ls; o1; o2] =>
      match sx_langs ls, sx_result sx_langs o1, sx_result sx_langs o2 with
      | Some ls, Some o1, Some o2 => of_bool (ok_merge ls o1 o2)
      | _, _, _ => bad
      end
  | _ => bad
  end.


Definition dispatch (code : Z) (arg : sx) : option sx :=
  match code with
  | 1900 => Some (req_c19_adjust arg)
  | 1901 => Some (req_c19_ok_adjust arg)
  | 1902 => Some (req_c19_merge arg)
  | 1903 => Some (req_c19_ok_merge arg)
  | _ => None
  end.
