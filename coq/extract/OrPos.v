(* positioning requests (C13: 1305..1319, C12: 1200..). *)
From Coq Require Import List ZArith QArith Bool.
From PV Require Import lib.Sx lib.Str lib.Result.
From PV Require Import model.Geometry model.Positioning model.DfxpTree spec.SpecGeom spec.SpecPos extract.OrCommon extract.OrGeom.
Import ListNotations.
Open Scope Z_scope.

Definition sx_cfg (x : sx) : option wcfg :=
  match x with
  | SL [r; f; w; h] =>
      match sx_bool r, sx_bool f, sx_opt sx_q w, sx_opt sx_q h with
      | Some r, Some f, Some w, Some h => Some (mkCfg r f w h) | _, _, _, _ => None end
  | _ => None end.

Definition sx_node (x : sx) : option nnode :=
  match x with SL [SI k; l] => option_map (mkNode k) (sx_opt sx_layout l) | _ => None end.
Definition sx_ncap (x : sx) : option ncap :=
  match x with
  | SL [l; ns] => match sx_opt sx_layout l, sx_listof sx_node ns with
                  | Some l, Some ns => Some (mkNcap l ns) | _, _ => None end
  | _ => None end.
Definition sx_nlang (x : sx) : option nlang :=
  match x with
  | SL [l; cs] => match sx_opt sx_layout l, sx_listof sx_ncap cs with
                  | Some l, Some cs => Some (mkNlang l cs) | _, _ => None end
  | _ => None end.
Definition sx_nset (x : sx) : option nset :=
  match x with
  | SL [l; ls] => match sx_opt sx_layout l, sx_listof sx_nlang ls with
                  | Some l, Some ls => Some (mkNset l ls) | _, _ => None end
  | _ => None end.

Definition of_node (n : nnode) : sx := SL [SI (n_kind n); of_opt of_layout (n_layout n)].
Definition of_ncap (c : ncap) : sx := SL [of_opt of_layout (nc_layout c); of_list of_node (nc_nodes c)].
Definition of_nlang (l : nlang) : sx := SL [of_opt of_layout (nl_layout l); of_list of_ncap (nl_caps l)].
Definition of_nset (s : nset) : sx := SL [of_opt of_layout (ns_layout s); of_list of_nlang (ns_langs s)].

Definition of_vtt_out (o : vtt_out) : sx :=
  match o with
  | VNone => SL [SI 0]
  | VRaw s => SL [SI 1; SS s]
  | VSet v => SL [SI 2; of_opt (fun h => SI (halign_code h)) (vs_align v); of_opt of_size (vs_position v);
                  of_opt of_size (vs_line v); of_opt of_size (vs_size v)]
  end.
Definition sx_vs (x : sx) : option vtt_settings :=
  match x with
  | SL [a; p; l; s] =>
      match sx_opt sx_halign a, sx_opt sx_size p, sx_opt sx_size l, sx_opt sx_size s with
      | Some a, Some p, Some l, Some s => Some (mkVs a p l s) | _, _, _, _ => None end
  | _ => None end.

Definition req_pos (code : Z) (arg : sx) : sx :=
  match code, arg with
  | 1305, SL [c; l] =>
      match sx_cfg c, sx_opt sx_layout l with
      | Some c, Some l => of_result of_vtt_out (vtt_convert_positioning c l) | _, _ => bad end
  | 1306, SL [c; s] =>
      match sx_cfg c, sx_nset s with Some c, Some s => of_result of_nset (dfxp_transform c s) | _, _ => bad end
  | 1307, SL [c; s] =>
      match sx_cfg c, sx_nset s with Some c, Some s => of_result of_nset (sami_transform c s) | _, _ => bad end
  | 1308, SL [c; g; cp] =>
      match sx_cfg c, sx_opt sx_layout g, sx_ncap cp with
      | Some c, Some g, Some cp => of_result (of_list of_vtt_out) (vtt_caption c g cp) | _, _, _ => bad end
  | 1309, SL [a; SS printed] =>
      match sx_size a with Some a => of_bool (ok_print_tol (s_val a) (s_unit a) printed) | None => bad end
  | 1310, SL [l; o] =>
      match sx_layout l, sx_vs o with Some l, Some o => of_bool (ok_vtt_arith l o && vs_all_pct o) | _, _ => bad end
  | 1311, SL [w; h; l] =>
      match sx_opt sx_q w, sx_opt sx_q h, sx_layout l with
      | Some w, Some h, Some l => of_bool (needs_missing w h l) | _, _, _ => bad end
  | 1313, SL [c; s] =>
      match sx_cfg c, sx_nset s with Some c, Some s => of_result of_nset (dfxp_transform_inline c s) | _, _ => bad end
  | 1315, SL [a; SS printed] =>
      match sx_size a with Some a => of_bool (ok_print_tol_stmt (s_val a) (s_unit a) printed) | None => bad end
  | 1312, SL [c; s] =>
      match sx_cfg c, sx_nset s with Some c, Some s => of_result of_nset (dfxp_transform_prefix c s) | _, _ => bad end
  | _, _ => bad
  end.

(* ---- C12 requests (1200..) ------------------------------------------------------------------------------- *)
Definition req_c12 (code : Z) (arg : sx) : sx :=
  match code, arg with
  | 1201, SL [l; c; n; o] =>
      match sx_opt sx_layout l, sx_opt sx_layout c, sx_opt sx_layout n, sx_opt sx_layout o with
      | Some l, Some c, Some n, Some o => of_bool (ok_effective l c n o) | _, _, _, _ => bad end
  | _, _ => bad
  end.

(* ---- C12: the tree model of the DFXP round trip (1210) --------------------------------------------------------- *)
Definition sx_dnode (x : sx) : option dnode :=
  match x with
  | SL [SI k; st; sy; l; SI w] =>
      match sx_bool st, sx_bool sy, sx_opt sx_layout l with
      | Some st, Some sy, Some l => Some (mkD k st sy l w) | _, _, _ => None end
  | _ => None end.
Definition sx_dcap (x : sx) : option dcap :=
  match x with
  | SL [l; ns] => match sx_opt sx_layout l, sx_listof sx_dnode ns with
                  | Some l, Some ns => Some (mkDcap l ns) | _, _ => None end
  | _ => None end.
Definition sx_dlang (x : sx) : option dlang :=
  match x with
  | SL [l; cs] => match sx_opt sx_layout l, sx_listof sx_dcap cs with
                  | Some l, Some cs => Some (mkDlang l cs) | _, _ => None end
  | _ => None end.
Definition of_rcap (c : rcap) : sx :=
  SL [of_layout (rc_layout c); of_list (fun wl => SL [SI (fst wl); of_layout (snd wl)]) (rc_words c)].
Definition of_rlang (l : rlang) : sx := SL [of_layout (rl_layout l); of_list of_rcap (rl_caps l)].

Definition req_tree (code : Z) (arg : sx) : sx :=
  match code with
  | 1210 => match arg with
            | SL [g; s] => match sx_opt sx_layout g, sx_listof sx_dlang s with
                           | Some g, Some s => of_result (of_list of_rlang) (dfxp_roundtrip g s) | _, _ => bad end
            | _ => bad end
  | _ => bad
  end.

Definition dispatch (code : Z) (arg : sx) : option sx :=
  match code with
  | 1305 | 1306 | 1307 | 1308 | 1309 | 1310 | 1311 | 1312 | 1313 | 1315 => Some (req_pos code arg)
  | 1201 => Some (req_c12 code arg)
  | 1210 => Some (req_tree code arg)
  | _ => None
  end.
