(* C02 requests: 200..219. *)
From Coq Require Import List ZArith QArith Qround Bool.
From PV Require Import lib.Sx lib.Str lib.Result.
From PV Require Import model.Base spec.SpecBase model.TimeWrite spec.SpecTimeW extract.OrCommon.
From PV Require model.Langs spec.SpecTimeSamiDoc model.DfxpWriteDoc model.SamiWriteDoc model.SamiText model.DfxpWriteDocLangs.
Import ListNotations.
Open Scope Z_scope.

Definition sx_span_cap (x : sx) : option caption :=
  match x with
  | SL [a; b] => match sx_q a, sx_q b with Some s, Some e => Some (mkCap s e [0]) | _, _ => None end
  | _ => None
  end.
Definition sx_caps := sx_listof sx_span_cap.
Definition sx_natz (x : sx) : option nat :=
  match x with SI z => if z <? 0 then None else Some (Z.to_nat z) | _ => None end.
Definition sx_kind (x : sx) : option wkind :=
  match x with
  | SI 0 => Some WSrt | SI 1 => Some WDfxp | SI 2 => Some WMerged | SI 3 => Some WVtt | SI 4 => Some WMdvd
  | _ => None
  end.
Definition sx_tokpair (x : sx) : option (str * str) :=
  match x with SL [SS a; SS b] => Some (a, b) | _ => None end.

Definition tok_pair (f : Q -> str) (c : caption) : sx := SL [SS (f (c_start c)); SS (f (c_end c))].

(* what the model predicts the writer prints *)
Definition model_tokens (k : wkind) (caps : list caption) (groups : list nat) : sx :=
  match k with
  | WSrt => of_list (tok_pair srt_ts) (srt_merge caps)
  | WDfxp => of_list (tok_pair dfxp_ts) caps
  | WMerged => match merge_lang caps with
               | Ok l => of_list (tok_pair dfxp_ts) l
               | Err _ => bad
               end
  | WVtt => of_list (tok_pair vtt_ts) (concat (map (fun cg => repeat (fst cg) (snd cg)) (combine caps groups)))
  | WMdvd => of_list (tok_pair mdvd_token) caps
  end.

Definition req_model (arg : sx) : sx :=
  match arg with
  | SL [k; cs; gs] =>
      match sx_kind k, sx_caps cs, sx_listof sx_natz gs with
      | Some k, Some cs, Some gs => model_tokens k cs gs
      | _, _, _ => bad
      end
  | _ => bad
  end.

Definition req_ok_cues (arg : sx) : sx :=
  match arg with
  | SL [k; cs; gs; obs] =>
      match sx_kind k, sx_caps cs, sx_listof sx_natz gs, sx_listof sx_tokpair obs with
      | Some k, Some cs, Some gs, Some obs => of_bool (ok_cues k cs obs)
      | _, _, _, _ => bad
      end
  | _ => bad
  end.

Definition spans_of (cs : list caption) : list (Q * Q) := map span cs.

Definition of_sev (e : sev) : sx :=
  match e with
  | SCue ms _ => SL [SS (sami_token ms); SI 0]
  | SBlank ms => SL [SS (sami_token ms); SI 1]
  end.

Definition req_sami_model (arg : sx) : sx :=
  match sx_caps arg with
  | Some cs => of_list of_sev (sami_write (spans_of cs))
  | None => bad
  end.

Definition sx_sami_obs (x : sx) : option (str * bool) :=
  match x with SL [SS a; b] => match sx_bool b with Some b => Some (a, b) | None => None end | _ => None end.

Definition req_ok_sami (arg : sx) : sx :=
  match arg with
  | SL [cs; obs] =>
      match sx_caps cs, sx_listof sx_sami_obs obs with
      | Some cs, Some obs => of_bool (ok_sami (spans_of cs) obs)
      | _, _ => bad
      end
  | _ => bad
  end.

(* 204: is the time integral; do the two admissible readings differ (ms / frames) *)
Definition req_classify (arg : sx) : sx :=
  match sx_q arg with
  | Some t =>
      SL [of_bool (Qeq_bool t (inject_Z (Qfloor t)));
          of_bool (up_ok t && negb (floor_ms t =? (Qfloor t + 1) / 1000));
          of_bool (up_ok t && negb (floor_frames t =? (Qfloor t + 1) * 25 / 1000000))]
  | None => bad
  end.

(* 205: number of WebVTT layout groups per caption; nodes: 0 = text without layout, k > 0 = text with
   layout k, -1 = break, -2 / -3 = style node that emits / does not emit a tag *)
Definition sx_vnode (x : sx) : option vnode :=
  match x with
  | SI 0 => Some (VText None)
  | SI (-1) => Some VBreak
  | SI (-2) => Some (VStyle true)
  | SI (-3) => Some (VStyle false)
  | SI k => if 0 <? k then Some (VText (Some k)) else None
  | _ => None
  end.
Definition req_groups (arg : sx) : sx :=
  match sx_listof (sx_listof sx_vnode) arg with
  | Some l => of_list (fun ns => SI (Z.of_nat (vtt_group_count ns))) l
  | None => bad
  end.

(* 206: the SAMI DOCUMENT model over all languages of a set (model/Langs.v sami_write: placement of every paragraph);
   arg = per language the list of [start; end] (exact rationals; the writer computes int(t // 1000) = floor(t) / 1000);
   answer = per language the paragraphs of its class in document order as [sync start ms; is blank] *)
Definition sx_wcue (x : sx) : option Langs.wcue :=
  match x with
  | SL [a; b] => match sx_q a, sx_q b with
                 | Some s, Some e => Some (Langs.mkWcue (Qfloor s) (Qfloor e) [116])
                 | _, _ => None
                 end
  | _ => None
  end.
Fixpoint number_langs (i : Z) (ls : list (list Langs.wcue)) : list (str * list Langs.wcue) :=
  match ls with [] => [] | l :: t => ([65 + i], l) :: number_langs (i + 1) t end.
Definition req_sami_doc (arg : sx) : sx :=
  match sx_listof (sx_listof sx_wcue) arg with
  | Some ls =>
      let cs := number_langs 0 ls in
      let b := Langs.sami_write cs in
      of_list (fun lc => of_list (fun o : Z * bool => SL [SI (fst o); SI (if snd o then 1 else 0)])
                                 (SpecTimeSamiDoc.doc_obs (fst lc) b)) cs
  | None => bad
  end.

(* 207 (wave 7): [language, captions (start, end, text lines)] -> the text of the DFXP document the string-level writer
   model prints (model/DfxpWriteDoc.v), compared character by character with DFXPWriter().write *)
Definition sx_wcap (x : sx) : option (Z * Z * list str) :=
  match x with
  | SL [SI a; SI b; ls] => match sx_listof sx_str ls with Some ls => Some (a, b, ls) | None => None end
  | _ => None
  end.
Definition req_dfxp_doc_text (arg : sx) : sx :=
  match arg with
  | SL [SS lang; cs] =>
      match sx_listof sx_wcap cs with
      | Some cs => SS (model.DfxpWriteDoc.dfxp_write_doc lang cs)
      | None => bad
      end
  | _ => bad
  end.

(* 208 (round 4): [language, captions (start, end, text lines)] -> [the text of the SAMI document the string-level writer
   model prints (model/SamiWriteDoc.v), its part from <body> on, the string-level reader model on that part] *)
Definition of_lang_times (d : list (str * list (Z * Z))) : sx :=
  of_list (fun kv : str * list (Z * Z) => SL [SS (fst kv); of_list (fun p : Z * Z => SL [SI (fst p); SI (snd p)]) (snd kv)]) d.
Definition req_sami_doc_text (arg : sx) : sx :=
  match arg with
  | SL [SS lang; cs] =>
      match sx_listof sx_wcap cs with
      | Some cs =>
          let body := model.SamiWriteDoc.sami_body_text lang cs in
          SL [SS (model.SamiWriteDoc.sami_write_doc lang cs); SS body;
              of_result of_lang_times (model.SamiText.sami_read_string [] [(lower lang, lang)] body)]
      | None => bad
      end
  | _ => bad
  end.

(* 209 (round 4): [[language, captions] ...] -> the text of the DFXP document with one <div> per language *)
Definition req_dfxp_doc_langs (arg : sx) : sx :=
  match sx_listof (fun x => match x with
                            | SL [SS lang; cs] => match sx_listof sx_wcap cs with Some cs => Some (lang, cs) | None => None end
                            | _ => None
                            end) arg with
  | Some langs => SS (model.DfxpWriteDocLangs.dfxp_write_doc_langs langs)
  | None => bad
  end.

Definition dispatch (code : Z) (arg : sx) : option sx :=
  match code with
  | 200 => Some (req_model arg)
  | 201 => Some (req_ok_cues arg)
  | 202 => Some (req_sami_model arg)
  | 203 => Some (req_ok_sami arg)
  | 204 => Some (req_classify arg)
  | 205 => Some (req_groups arg)
  | 206 => Some (req_sami_doc arg)
  | 207 => Some (req_dfxp_doc_text arg)
  | 208 => Some (req_sami_doc_text arg)
  | 209 => Some (req_dfxp_doc_langs arg)
  | _ => None
  end.
