(* C17 requests: 1700..1707. *)
From Coq Require Import List ZArith QArith Bool.
From PV Require Import lib.Sx lib.Str lib.Result.
From PV Require Import model.SccWrap model.SccWrite spec.SpecSccw model.SccRoundTrip model.SccRereadDom extract.OrCommon.
Import ListNotations.
Open Scope Z_scope.

Definition sx_wcap (x : sx) : option wcap :=
  match x with
  | SL [SS t; a; b] => match sx_q a, sx_q b with Some a, Some b => Some (mkWcap t a b) | _, _ => None end
  | _ => None
  end.
Definition sx_cue (x : sx) : option cue :=
  match x with
  | SL [SS t; a; b] => match sx_q a, sx_q b with Some a, Some b => Some (mkCue t a b) | _, _ => None end
  | _ => None
  end.
Definition sx_obs (x : sx) : option (Q * str) :=
  match x with
  | SL [a; SS t] => match sx_q a with Some a => Some (a, t) | None => None end
  | _ => None
  end.

(* 1700: textwrap model   (width, text) -> rows *)
Definition req_wrap (arg : sx) : sx :=
  match arg with
  | SL [SI w; SS t] => of_list SS (wrap (Z.to_nat w) t)
  | _ => bad
  end.
(* 1701: SCCWriter.write model  caps -> Ok document | Err *)
Definition req_write (arg : sx) : sx :=
  match sx_listof sx_wcap arg with
  | Some caps => of_result SS (write caps)
  | None => bad
  end.
(* 1702: property oracle on a document *)
Definition req_ok_output (arg : sx) : sx :=
  match arg with
  | SL [cs; SS doc] => match sx_listof sx_cue cs with Some cs => SI (ok_output cs doc) | None => bad end
  | _ => bad
  end.
(* 1703: property oracle on the re-read captions *)
Definition req_ok_reread (arg : sx) : sx :=
  match arg with
  | SL [cs; obs] =>
      match sx_listof sx_cue cs, sx_listof sx_obs obs with
      | Some cs, Some obs => SI (ok_reread cs obs)
      | _, _ => bad
      end
  | _ => bad
  end.
(* 1704: for the generator: text -> (number of laid-out rows, code words incl. the 8 fixed ones) *)
Definition req_size (arg : sx) : sx :=
  match arg with
  | SS t =>
      match text_to_code t with
      | Ok code => SL [SI (Z.of_nat (length (layout_rows t))); SI (Z.of_nat (length code) / 5 + 8)]
      | Err _ => SL [SI (Z.of_nat (length (layout_rows t))); SI (-1)]
      end
  | _ => bad
  end.

(* 1705: writer model composed with the SCC reader model: caps -> [status; observation; ok]
   status 0 = read ok, 1 = writer error, 2 = not a document, 3 = the reader model raised / refused *)
Definition req_reread (arg : sx) : sx :=
  match sx_listof sx_wcap arg with
  | Some caps =>
      let st := match reread caps with
                | RRWriteError _ => 1 | RRNotADocument => 2
                | RRRead (SccStash.ROk _) => 0 | RRRead _ => 3 end in
      SL [SI st;
          match reread_obs caps with
          | Some obs => of_list (fun o => SL [of_q (fst o); SS (snd o)]) obs
          | None => SL []
          end;
          of_bool (roundtrip_ok caps)]
  | None => bad
  end.

(* 1706: caps -> [the case lies in the domain of the wave-7 re-read theorems (caps_ok_b)]
   1707: caps -> how the reader model answers the writer model's document (reread_class; asked only when 1705 reports
         that the reader model did not return captions) *)
Definition req_reread_domain (arg : sx) : sx :=
  match sx_listof sx_wcap arg with
  | Some caps => SL [of_bool (caps_ok_b caps)]
  | None => bad
  end.
Definition req_reread_class (arg : sx) : sx :=
  match sx_listof sx_wcap arg with
  | Some caps => SI (reread_class caps)
  | None => bad
  end.

Definition dispatch (code : Z) (arg : sx) : option sx :=
  match code with
  | 1700 => Some (req_wrap arg)
  | 1701 => Some (req_write arg)
  | 1702 => Some (req_ok_output arg)
  | 1703 => Some (req_ok_reread arg)
  | 1704 => Some (req_size arg)
  | 1705 => Some (req_reread arg)
  | 1706 => Some (req_reread_domain arg)
  | 1707 => Some (req_reread_class arg)
  | _ => None
  end.
