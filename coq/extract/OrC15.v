(* C15 requests: 1500..1503. *)
From Coq Require Import List ZArith Bool.
From PV Require Import lib.Sx lib.Str lib.Result.
From PV Require Import model.SccLen spec.SpecSccLen extract.OrCommon.
Import ListNotations.
Open Scope Z_scope.

Definition sx_lcap (x : sx) : option (str * str) :=
  match x with SL [SS k; SS t] => Some (k, t) | _ => None end.
Definition sx_lcaps := sx_listof sx_lcap.

Definition dispatch (code : Z) (arg : sx) : option sx :=
  match code with
  | 1500 => Some (match sx_lcaps arg with Some caps => of_opt SS (length_check caps) | None => bad end)
  | 1501 => Some (match arg with
                  | SL [caps; out] =>
                      match sx_lcaps caps, sx_opt sx_str out with
                      | Some caps, Some out => of_bool (ok_c15 caps out)
                      | _, _ => bad
                      end
                  | _ => bad
                  end)
  | 1504 => Some (match arg with
                  | SL [caps; out] =>
                      match sx_lcaps caps, sx_opt sx_str out with
                      | Some caps, Some out => of_bool (ok_c15_loose caps out)
                      | _, _ => bad
                      end
                  | _ => bad
                  end)
  | 1502 => Some (match sx_lcaps arg with Some caps => of_opt SS (length_check_prefix caps) | None => bad end)
  | 1503 => Some (match sx_lcaps arg with Some caps => of_bool (must_raise (line_lengths caps)) | None => bad end)
  | _ => None
  end.
