(* C16 requests: 1600.. *)
From Coq Require Import List ZArith QArith Bool.
From PV Require Import lib.Sx lib.Str lib.Result model.SccStash model.SccPopon model.SccRollPaint spec.SpecScc16 spec.SpecSccTime extract.OrCommon.
From PV Require Import model.SccDecoder model.SccTokenise spec.SpecScc16Sent.
Import ListNotations.
Open Scope Z_scope.

Definition sx_obs_cap (x : sx) : option obs_cap :=
  match x with
  | SL [a; b; SS t] => match sx_q a, sx_q b with Some a, Some b => Some (a, b, t) | _, _ => None end
  | _ => None
  end.

Definition sx_tc16 (x : sx) : option timecode :=
  match x with
  | SL [SI h; SI m; SI s; d; SI f] => match sx_bool d with Some d => Some (mkTc h m s d f) | None => None end
  | _ => None
  end.
(* event: [kind; timecode; k]  kind 0 = roll-up flush, 1 = paint-on store *)
Definition sx_rpev (x : sx) : option rpev :=
  match x with
  | SL [SI kind; tc; SI k] =>
      match sx_tc16 tc with
      | Some tc => let t := Qred (spec_instant tc k 0) in Some (if kind =? 0 then RRoll t else RPaint t)
      | None => None
      end
  | _ => None
  end.

Definition dispatch (code : Z) (arg : sx) : option sx :=
  match code with
  | 1600 => Some (match arg with
                  | SL [rows; obs] =>
                      match sx_listof sx_str rows, sx_result (sx_listof sx_obs_cap) obs with
                      | Some rows, Some obs =>
                          SL [of_bool (ok_c16 rows obs);
                              of_bool (match obs with Ok c => ok_text rows c | Err _ => false end);
                              of_bool (match obs with Ok c => ok_chain c | Err _ => false end)]
                      | _, _ => bad
                      end
                  | _ => bad
                  end)
  | 1601 => Some (match arg with
                  | SL [rows; SI nb; obs] =>
                      match sx_listof sx_str rows, sx_result (sx_listof sx_obs_cap) obs with
                      | Some rows, Some obs =>
                          SL [of_bool (ok_c16_screens rows nb obs);
                              of_bool (match obs with Ok c => ok_text rows c | Err _ => false end);
                              of_bool (match obs with Ok c => ok_chain c | Err _ => false end)]
                      | _, _ => bad
                      end
                  | _ => bad
                  end)
  | 1603 => Some (match arg with          (* SCC text -> [dom608; sent608]: the independent 608 reading of the word stream *)
                  | SS text =>
                      let lines := map snd (tokenise text) in
                      SL [of_bool (dom_lines (None, false) lines); SS (sent608 lines)]
                  | _ => bad
                  end)
  | 1602 => Some (match arg with          (* event model: [first mode command [tc; k]; events [kind; tc; k]; pending] -> spans *)
                  | SL [SL [tc0; SI k0]; evs; pend] =>
                      match sx_tc16 tc0, sx_listof sx_rpev evs, sx_bool pend with
                      | Some tc0, Some evs, Some pend =>
                          of_result (of_list (fun p : Q * Q => SL [of_q (fst p); of_q (snd p)]))
                                    (rp_read (Qred (spec_instant tc0 k0 0)) evs pend)
                      | _, _, _ => bad
                      end
                  | _ => bad
                  end)
  | _ => None
  end.
