(* C16 requests: 1600.. *)
From Coq Require Import List ZArith QArith Bool.
From PV Require Import lib.Sx lib.Str lib.Result spec.SpecScc16 extract.OrCommon.
Import ListNotations.
Open Scope Z_scope.

Definition sx_obs_cap (x : sx) : option obs_cap :=
  match x with
  | SL [a; b; SS t] => match sx_q a, sx_q b with Some a, Some b => Some (a, b, t) | _, _ => None end
  | _ => None
  end.

Definition dispatch (code : Z) (arg : sx) : option sx :=
  match code with
  | 1600 => Some (match arg with
                  | SL [rows; obs] =>
                      match sx_listof sx_str rows, sx_result (sx_listof sx_obs_cap) obs with
                      | Some rows, Some obs =>
                          SL [of_bool (ok_c16 rows obs);
                              of_bool (match obs with Ok c => ok_text rows c | Err _ => false end);
                              of_bool (match obs with Ok c => ok_chain c | Err _ => false end)]
                      | _, _ => bad
                      end
                  | _ => bad
                  end)
  | _ => None
  end.
