(* C11 requests 1100..1119: flags, balance, span traces. *)
From Coq Require Import List ZArith Bool.
From PV Require Import lib.Sx lib.Str lib.Result.
From PV Require Import model.TextNodes model.TextWrite model.TextStyle spec.SpecTextStyle spec.SpecTextChain extract.OrCommon extract.OrC03.
Import ListNotations.
Open Scope Z_scope.

Definition sx_flag3 (x : sx) : option flag3 :=
  match x with
  | SL [a; b; c] => match sx_bool a, sx_bool b, sx_bool c with
                    | Some a, Some b, Some c => Some (a, b, c)
                    | _, _, _ => None end
  | _ => None
  end.
Definition of_flag3 (f : flag3) : sx := let '(a, b, c) := f in SL [of_bool a; of_bool b; of_bool c].
Definition of_flags (l : list (Z * flag3)) : sx := of_list (fun p => SL [SI (fst p); of_flag3 (snd p)]) l.

Definition dispatch (code : Z) (arg : sx) : option sx :=
  match code with
  | 1100 => Some (match sx_nodes arg with Some l => of_bool (balanced l) | None => bad end)
  | 1101 => Some (match sx_nodes arg with Some l => of_bool (flat_balanced l) | None => bad end)
  | 1102 => Some (match arg with
                  | SL [m; a; o] => match sx_flag3 m, sx_nodes a, sx_nodes o with
                                    | Some m, Some a, Some o => of_bool (ok_flags m a o)
                                    | _, _, _ => bad end
                  | _ => bad end)
  | 1103 => Some (match arg with
                  | SL [a; SS s] => match sx_nodes a with
                                    | Some a => SL [of_bool (ok_vtt_flags a s); of_opt of_flags (vtt_flags s)]
                                    | None => bad end
                  | _ => bad end)
  | 1105 => Some (match arg with
                  | SL [SI kind; SS extra; ns] =>
                      match sx_nodes ns with
                      | Some l =>
                          let r := if kind =? 2 then sami_run_tr false l else dfxp_run_tr extra false l in
                          SL [of_list of_bool (snd r); of_bool (snd (fst r))]
                      | None => bad end
                  | _ => bad end)
  | 1106 => Some (match sx_nodes arg with Some l => of_flags (flags l) | None => bad end)
  | 1107 => Some (match sx_nodes arg with Some l => of_list (fun e => SL [of_bool (fst e); SI (snd e)]) (vtt_tag_evs l) | None => bad end)
  (* 1110 (wave 7): the conversion chains on the models. arg = SL [SI which; SS extra1; SS extra2; nodes]
     which 0 = DFXP -> SAMI -> DFXP, 1 = SAMI -> DFXP -> SAMI (extra1 only) -> option nodes *)
  | 1110 => Some (match arg with
                  | SL [SI w; SS e1; SS e2; ns] =>
                      match sx_nodes ns with
                      | Some l => of_opt (of_list of_node) (if w =? 0 then chain_dsd e1 e2 l else chain_sds e1 l)
                      | None => bad end
                  | _ => bad end)
  | _ => None
  end.
