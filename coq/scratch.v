From Coq Require Import List ZArith QArith Qabs Bool Lia Lqa Field.
From PV Require Import lib.Sx lib.Str lib.Result model.Geometry model.Positioning spec.SpecGeom spec.SpecPos.
From PV Require Import proofs.GeomStr proofs.GeomEq proofs.GeomParse proofs.GeomLang proofs.GeomFacts.
Import ListNotations.
Open Scope Z_scope.
Lemma given_some : forall d q, given d = Some q -> d = Some q /\ ~ (q == 0)%Q.
Proof.
  intros [x|] q H; cbn [given] in H; [|discriminate]. destruct (Qeq_bool x 0) eqn:E; [discriminate|].
  inversion H; subst. split; [reflexivity|]. intros K. apply Qeq_bool_iff in K. congruence.
Qed.
Definition axis_call (a : size) (hz : bool) (d : option Q) : result size :=
  size_as_pct a (if hz then d else None) (if hz then None else d).
Goal forall a hz d,
  match spec_pct a hz (given d) with
  | Some v => exists z, axis_call a hz d = Ok z /\ s_unit z = PCT /\ (s_val z == v)%Q
  | None => axis_call a hz d = Err ERelativization
  end.
Proof.
  intros [v u] hz d. unfold axis_call, spec_pct, size_as_pct. cbn [s_unit s_val].
  destruct u.
  - destruct (given d) as [q|] eqn:G.
    + destruct (given_some _ _ G) as [-> Hq]. destruct hz; cbn [given]. Show.
