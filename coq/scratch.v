From Coq Require Import List ZArith QArith Qabs Qround Bool Lia Lqa Field.
Open Scope Z_scope.
Goal forall n, ((inject_Z n - inject_Z n) ?= (1 # 2))%Q = Lt.
intros. rewrite <- Qlt_alt. Show. 
lra.
Qed.
Goal forall q f, (q - inject_Z f ?= 1#2)%Q = Eq -> (q - inject_Z f == 1#2)%Q.
intros. rewrite <- Qeq_alt in H. exact H. Qed.
