import sys; sys.path.insert(0,'/tmp/wr_sccr')
from pycaption import SCCReader
def par(b):
    return b | 0x80 if bin(b).count("1") % 2 == 0 else b
def txt(s):
    bs=[par(ord(c)) for c in s]
    if len(bs)%2: bs.append(0x80)
    return ["%02x%02x"%(bs[i],bs[i+1]) for i in range(0,len(bs),2)]
def stream(rows):
    ws=["94ae","94ae","9420","9420"]
    for pac,t in rows: ws += [pac,pac]+txt(t)
    ws += ["942f","942f"]
    return "Scenarist_SCC V1.0\n\n00:00:01:00\t"+" ".join(ws)+"\n\n00:00:05:00\t942c 942c\n"
R1="9140"; R5="1540"
for rows in ([(R1,"a"*34),(R5,"b"*10)], [(R5,"b"*10),(R1,"a"*34)]):
    try:
        cs=SCCReader().read(stream(rows)); print("OK",[ (c.start,c.get_text()) for c in cs.get_captions("en-US")])
    except Exception as e: print("ERR",type(e).__name__, repr(e.args[0]))
